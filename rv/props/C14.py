"""C14 - Variables compose like functions and keep each variable's description.

Every generated chain v1..vn is built three times from the recipe (for Compose,
for the Sequence, for direct getter calls) and applied to the same start values
(bare, with context, with an untyped and with a typed pre-existing
context.variable).  A context recorder watches every call:

* Compose(v1..vn)(x) == Sequence(v1..vn).run([x]) (data and whole context)
  == vn.getter(...v1.getter(data)...);
* context.variable: name/attributes of the resulting variable, every composed
  variable's attributes under its type, compose == types in application order
  (independent model, not derived from the Sequence);
* Combine: tuple of the getters' results, name / dim / combine;
* var_context of every variable involved deep-equal before and after each call,
  context outside "variable" untouched, three applications to equal values
  give equal results.
"""
import copy

from rv import gen

ID = "C14"
LEVEL = "exploration"
RULE = ("seeded random chains of 1..5 variables (plain Variable, nested Compose of 2..3, "
        "Combine of 1..4) with pairwise distinct multi-character types and 0..3 extra "
        "attributes (strings, numbers, nested lists/dicts), optional name= for Compose/Combine; "
        "start values: "
        "bare number/tuple, empty context, context tree without variable, untyped "
        "context.variable, typed context.variable, typed context.variable with a compose "
        "list; each applied 3 times. Non-trivial: a chain of >= 2 variables (or a Combine "
        "of >= 2) applied to at least one start value with a context")
ASSUMPTIONS = [
    "getters are total pure functions of the data",
    "types are pairwise distinct, non-empty and differ from attribute names and from the "
    "types already present in the start context",
    "Compose(..., name=N) is compared with the Sequence after replacing variable.name by N "
    "(the only documented keyword)",
]
ANCHORS = [("lena/variables/variable.py", 54, 145), ("lena/variables/variable.py", 180, 232),
           ("lena/variables/variable.py", 251, 309), ("lena/variables/variable.py", 315, 372)]
MUST_REACH = ["lena/variables/variable.py:Variable.__call__",
              "lena/variables/variable.py:Variable._update_context",
              "lena/variables/variable.py:Combine.__init__",
              "lena/variables/variable.py:Compose.__init__",
              "lena/variables/variable.py:Compose.__init__.<locals>.getter"]
MUST_COUNT = ["compose_vs_sequence_compared", "var_context_snapshots_compared",
              "model_contexts_checked", "combine_checked"]
MIN_NONTRIVIAL = {"quick": 1800, "thorough": 40000}
NCASES = {"quick": 2500, "thorough": 60000}

LEVEL_TEXT = ("Seeded random exploration of variable chains and Combine tuples; each is applied "
              "to six kinds of start value three times on the real Variable/Compose/Combine/"
              "Sequence code; a recorder compares Compose with the Sequence and with nested "
              "getter calls, the resulting context.variable with an independent model (types "
              "in application order, attributes under each type), and var_context snapshots "
              "before/after every call. Held on the K chains in the evidence; silent about "
              "variables with equal or empty types beyond the equality oracles.")
LEVEL_NOTE = ("Trusts lena.core.Sequence / Run adapter as the sequential reference (C01) and "
              "the recipe-built twins being equal variables.")
TECHNIQUE = "reference-model monitor (Sequence, nested getters, context model) + state snapshots"

_BASE_TYPES = ["coordinate", "particle", "detector", "energy", "region", "channel", "t7",
               "kind8", "xx", "momentum"]
TYPES = _BASE_TYPES + [b + s for s in ("_2", "B", "3") for b in _BASE_TYPES] + \
    ["particle.lepton", "v1.0", "det-2", "coord sys", "évènement"]   # any non-empty string
GETTERS = ["inc", "dbl", "neg", "sq", "half", "add10", "mod3", "id"]
START_KINDS = ["bare", "bare-tuple", "empty-context", "context-tree", "untyped-variable",
               "typed-variable", "typed-variable-with-compose"]


def rand_attrs(rng):
    out = {}
    for _ in range(rng.choice([0, 0, 1, 1, 2, 3])):
        k = rng.choice(["latex_name", "unit", "range", "opts", "weight", "run", "fill", "cuts",
                        "explicit_none", "tags", "cut"])
        out[k] = {"run": rng.choice([1234, "2023a"]),      # attributes named like methods of
                  "fill": 7,                               # elements: still plain attributes
                  "latex_name": rng.choice(["x_1", "E^+", "\\\\phi"]),
                  "unit": rng.choice(["cm", "keV", "m"]),
                  "range": [rng.randint(-5, 0), rng.randint(1, 9)],
                  "opts": {"log": True, "bins": [1, 2, {"deep": rng.randint(0, 3)}]},
                  "weight": rng.choice([0, 1.5, 2]),
                  # a tuple holding mutable items (built from the recipe by build_var)
                  "cuts": {"__tuple__": [[0, rng.randint(1, 9)], {"k": [1]}]},
                  # an attribute explicitly given as None is an attribute like any other
                  "explicit_none": None,
                  # mutable values that are not dict / list / tuple
                  "tags": {"__set__": ["mc", "v%d" % rng.randint(0, 3)]},
                  "cut": {"__cut__": [0, rng.randint(1, 9)]}}[k]
    return out


def rand_var(rng, types, typed=True):
    t = types.pop() if typed else ""
    return ["var", "v%d_%s" % (rng.randint(0, 99), rng.choice("xyzpq")), rng.choice(GETTERS), t,
            rand_attrs(rng)]


def rand_chain_el(rng, types, depth, typed):
    k = rng.choice(["var", "var", "var", "var", "compose", "combine"]) if depth < 2 else "var"
    if k == "var":
        return rand_var(rng, types, typed and True)
    if k == "compose":
        n = rng.randint(2, 3)
        name = "c%d" % rng.randint(0, 9) if rng.random() < 0.3 else None
        return ["compose", [rand_chain_el(rng, types, depth + 1, typed) for _ in range(n)], name]
    n = rng.randint(1, 3)
    name = "m%d" % rng.randint(0, 9) if rng.random() < 0.4 else None
    t = types.pop() if typed else ""
    return ["combine", [rand_var(rng, types, typed and rng.random() < 0.8) for _ in range(n)],
            name, t]


def rand_start(rng, kind):
    d = rng.randint(-5, 9) if kind != "bare-tuple" else [rng.randint(0, 5), rng.randint(0, 5)]
    if kind in ("bare", "bare-tuple"):
        return {"d": d, "c": None, "kind": kind}
    if kind == "empty-context":
        return {"d": d, "c": {}, "kind": kind}
    c = {"i": rng.randint(0, 9), "n": {"k": [1, {"z": 2}]}, "output": {"filename": "f"}}
    if kind == "untyped-variable":
        c["variable"] = {"name": "old", "unit": "mm"}
    elif kind == "typed-variable":
        c["variable"] = {"name": "old", "type": "told", "unit": "mm",
                         "told": {"name": "old", "unit": "mm"}}
    elif kind == "typed-variable-with-compose":
        c["variable"] = {"name": "o2", "type": "tb", "tb": {"name": "o2"},
                         "ta": {"name": "o1", "range": [0, 1]}, "compose": ["ta", "tb"]}
    return {"d": d, "c": c, "kind": kind}


def cases(tier, seed):
    for c in corner_cases():
        yield c
    # compositions of tens to thousands of variables (a loop over getters has no depth limit)
    for n in (17, 64, 65, 300, 1200, 2500):
        for typed in (0, 1):
            yield {"k": "longcompose", "n": n, "typed": typed}
    for shape in DATA_SHAPES:
        for form in ("single", "compose", "sequence", "combine"):
            yield {"k": "shapes", "shape": shape, "form": form}
    for form in ("combine-after-getter", "combine-on-record", "combine-in-sequence",
                 "combine-in-combine"):
        yield {"k": "shapes", "shape": "intermediate-pair-lookalike", "form": form}
    for exc in ("StopIteration", "KeyError", "IndexError"):
        for form in ("combine", "compose", "combine-in-compose", "combine-in-combine"):
            for n in (1, 2, 3):
                for pos in range(n):
                    for via in ("call", "sequence"):
                        yield {"k": "getter_fails", "exc": exc, "form": form, "n": n, "pos": pos,
                               "via": via, "ctx": (n + pos) % 2}
    for head in ("iter", "list"):
        for n in (2, 3):
            for shared in (1, 0):
                for order in (0, 1):
                    for ctx in (0, 1):
                        yield {"k": "stateful", "head": head, "n": n, "shared": shared,
                               "order": order, "ctx": ctx, "data": [7.5, 1.0, 9.0, 2.5]}
    for c in history_cases(tier, seed):
        yield c
    for via in ("call", "sequence", "compose-then-call"):
        for order in (0, 1):
            yield {"k": "sharedtail", "via": via, "order": order}
    for i in range(NCASES[tier]):
        rng = gen.rng_for(seed, "C14", i)
        types = list(TYPES)
        rng.shuffle(types)
        fam = rng.random()
        if fam < 0.2:
            n = rng.randint(1, 4)
            vs = [rand_var(rng, types, rng.random() < 0.85) for _ in range(n)]
            name = "m%d" % rng.randint(0, 9) if rng.random() < 0.4 else None
            t = types.pop() if rng.random() < 0.3 else ""
            yield {"k": "combine", "vars": vs, "name": name, "type": t,
                   "starts": [rand_start(rng, k) for k in START_KINDS]}
            continue
        # chains of variables with pairwise distinct non-empty types (the quantifier of the
        # property; untyped variables are documented to lose their description on composition)
        typed = True
        n = rng.choice([1, 2, 2, 3, 3, 4, 5])
        chain = []
        for _ in range(n):
            if typed:
                chain.append(rand_chain_el(rng, types, 1 if n > 3 else 0, True))
            else:
                chain.append(rand_var(rng, types, rng.random() < 0.5))
        yield {"k": "chain", "typed": typed, "chain": chain,
               "name": ("c%d" % rng.randint(0, 9)) if rng.random() < 0.25 else None,
               "starts": [rand_start(rng, k) for k in START_KINDS]}


def history_cases(tier, seed):
    """(a) one mutable data object refilled in place between applications (a reader that
    reuses its event list); (b) an attribute of the variable changed between applications,
    through the documented ways (attribute assignment, the public var_context dictionary,
    in-place change of a list attribute)."""
    n = 40 if tier == "quick" else 1500
    for i in range(n):
        rng = gen.rng_for(seed, "C14", "hist", i)
        types = list(TYPES)
        rng.shuffle(types)
        chain = [rand_var(rng, types, True) for _ in range(rng.choice([1, 2, 2, 3]))]
        yield {"k": "reuse", "chain": chain, "form": rng.choice(["compose", "compose", "single"]),
               "steps": [[rng.randint(-5, 9), rng.randint(0, 5)] for _ in range(4)]}
        v = rand_var(rng, types, rng.random() < 0.6)
        v[4]["range"] = [0, rng.randint(1, 9)]
        yield {"k": "attrs", "var": v, "ops": [rng.choice(["setattr", "var_context", "inplace",
                                                           "none"]) for _ in range(4)],
               "ctx": rng.random() < 0.7}


def corner_cases():
    import random
    rng = random.Random(14)
    starts = [rand_start(rng, k) for k in START_KINDS]
    a = ["var", "positron", "dbl", "particle", {"latex_name": "e^+"}]
    b = ["var", "x", "inc", "coordinate", {}]
    c = ["var", "cm", "half", "t2", {"unit": "cm"}]
    yield {"k": "chain", "typed": True, "chain": [a, b], "name": None, "starts": starts}
    yield {"k": "chain", "typed": True, "chain": [a, b, c], "name": None, "starts": starts}
    yield {"k": "chain", "typed": True, "chain": [a, ["compose", [b, c], None]], "name": None,
           "starts": starts}
    yield {"k": "chain", "typed": True, "chain": [["compose", [a, b], None], c], "name": None,
           "starts": starts}
    yield {"k": "chain", "typed": True, "chain": [a], "name": "solo", "starts": starts}
    # compositions nested behind variables WITHOUT a type
    u = ["var", "raw", "inc", "", {}]
    u2 = ["var", "raw2", "half", "", {"unit": "mm"}]
    for inner in (["compose", [a, b], None], ["compose", [b, c], "bc"],
                  ["combine", [a, b], None, "region"]):
        for chain in ([u, inner, c], [u, u2, inner, c], [u, inner], [u, inner, c, a],
                      [u, ["compose", [u2, inner], None], c]):
            # (variables without a type are outside the property's quantifier: only values
            # that carry no variable description yet, where Compose and Sequence agree anyway)
            yield {"k": "chain", "typed": False, "chain": chain, "name": None,
                   "starts": [st for st in starts if st["kind"] in
                              ("bare", "bare-tuple", "empty-context", "context-tree")]}
    yield {"k": "combine", "vars": [a, b, c], "name": None, "type": "", "starts": starts}
    yield {"k": "combine", "vars": [a], "name": "one", "type": "region", "starts": starts}


# ------------------------------------------------------------------ building
def build_var(vr):
    import lena.variables
    k = vr[0]
    if k == "var":
        kw = _attrs(vr[4])
        if vr[3]:
            kw["type"] = vr[3]
        return lena.variables.Variable(vr[1], gen.DATA_FUNCS[vr[2]], **kw)
    if k == "compose":
        kw = {"name": vr[2]} if vr[2] else {}
        parts = [build_var(x) for x in vr[1]]
        return _construct(lena.variables.Compose, parts, kw, vr)
    if k == "combine":
        kw = {}
        if vr[2]:
            kw["name"] = vr[2]
        if vr[3]:
            kw["type"] = vr[3]
        parts = [build_var(x) for x in vr[1]]
        return _construct(lena.variables.Combine, parts, kw, vr)
    raise AssertionError(vr)


CONSTRUCTION_CHANGES = []      # drained by run_case


def _construct(cls, parts, kw, vr):
    """Build a Compose / Combine; building it must not change the variables it is made of
    (they may be used on their own, or in another composition, afterwards)."""
    before = [copy.deepcopy(q.var_context) for p in parts for q in all_vars(p)]
    made = cls(*parts, **kw)
    after = [q.var_context for p in parts for q in all_vars(p)]
    if before != after:
        bad = next((b, a) for b, a in zip(before, after) if b != a)
        CONSTRUCTION_CHANGES.append(
            "constructing %s from %r changed the var_context of one of its variables from %r "
            "to %r" % (cls.__name__, vr[1], bad[0], bad[1]))
    return made


def all_vars(v):
    """The variable and all its component variables."""
    out = [v]
    for sub in getattr(v, "_vars", ()):
        out.extend(all_vars(sub))
    return out


def mkstart(sr):
    d = tuple(sr["d"]) if isinstance(sr["d"], list) else sr["d"]
    if sr["c"] is None:
        return d
    return (d, copy.deepcopy(sr["c"]))


# ------------------------------------------------------------------ model
def leaves(vr):
    """Plain application order of a chain element: list of (name, type, own_context)."""
    k = vr[0]
    if k == "var":
        own = {"name": vr[1]}
        own.update(_attrs(vr[4]))
        return [(vr[1], vr[3], own)]
    if k == "compose":
        out = []
        for x in vr[1]:
            out.extend(leaves(x))
        return out
    # a Combine is one application; its own description = what it puts under its type
    return [(combine_name(vr), vr[3], ("combine", len(vr[1])))]


class Cut(object):
    """A user's attribute object (mutable, compared by value)."""

    def __init__(self, lo, hi):
        self.lo, self.hi = lo, hi
        self.notes = []

    def __eq__(self, other):
        return isinstance(other, Cut) and vars(self) == vars(other)

    def __ne__(self, other):
        return not self == other

    __hash__ = None

    def __repr__(self):
        return "Cut(%r, %r, notes=%r)" % (self.lo, self.hi, self.notes)


def _attrs(a):
    a = copy.deepcopy(a)
    if isinstance(a.get("cuts"), dict):
        a["cuts"] = tuple(a["cuts"]["__tuple__"])
    if isinstance(a.get("tags"), dict):
        a["tags"] = set(a["tags"]["__set__"])
    if isinstance(a.get("cut"), dict):
        a["cut"] = Cut(*a["cut"]["__cut__"])
    return a


def combine_name(vr):
    return vr[2] if vr[2] else "_".join(var_name(x) for x in vr[1])


def var_name(vr):
    if vr[0] == "var":
        return vr[1]
    if vr[0] == "compose":
        return vr[2] if vr[2] else var_name(vr[1][-1])
    return combine_name(vr)


def model_get(vr, data):
    k = vr[0]
    if k == "var":
        return gen.DATA_FUNCS[vr[2]](data)
    if k == "compose":
        for x in vr[1]:
            data = model_get(x, data)
        return data
    return tuple(model_get(x, data) for x in vr[1])


def start_shape(sr):
    return {"bare": "no-variable", "bare-tuple": "no-variable", "empty-context": "no-variable",
            "context-tree": "no-variable", "untyped-variable": "start-has-untyped-variable",
            "typed-variable": "start-has-typed-variable",
            "typed-variable-with-compose": "start-has-typed-variable"}[sr["kind"]]


def has_nested_compose(chain):
    return any(v[0] == "compose" for v in chain)


def n_typed_leaves(vr):
    return sum(1 for _, t, _ in leaves(vr) if t)


def merges_compose_lists(ops, typed_before):
    """Does applying *ops* one after another (on a context whose variable is typed iff
    *typed_before*), or building any Compose among them, apply a variable that carries a
    compose list to a typed context.variable?"""
    for v in ops:
        if v[0] == "compose":
            if merges_compose_lists(v[1], False):      # building the operand itself
                return True
            if n_typed_leaves(v) >= 2 and typed_before:
                return True
        if n_typed_leaves(v):
            typed_before = True
    return False


def trigger(chain, sr, what):
    """Mechanism classifier: is a variable that carries a compose list (a Compose of >= 2
    typed variables) applied to a context whose variable already has a type?  That is the
    only situation in which Variable._update_context merges two compose lists."""
    start_typed = "type" in ((sr["c"] or {}).get("variable") or {})
    if what == "Sequence":
        return merges_compose_lists(chain, start_typed)
    # the outer Compose is built by the same merging (start context not involved) and then
    # applied as one variable to the start context
    total = sum(n_typed_leaves(v) for v in chain)
    return merges_compose_lists(chain, False) or (start_typed and total >= 2)


TRIG = "composed-variable-applied-after-typed-variable"


# ------------------------------------------------------------------ checks
def freeze(v):
    return gen.freeze(v)


def apply_recorded(v, x, obs, what, invs):
    """Call variable *v* on *x* with the state recorder on: var_context of every variable
    involved before/after, context outside 'variable' before/after."""
    vs = all_vars(v)
    before = [copy.deepcopy(w.var_context) for w in vs]
    in_ctx = copy.deepcopy(gen.ctx_of(x))
    in_data = copy.deepcopy(gen.data_of(x))
    res = v(x)
    for w, b in zip(vs, before):
        obs.count("var_context_snapshots_compared")
        obs.check(w.var_context == b, "var_context-changed-by-call:" + what,
                  "calling %r changed var_context of %r from %r to %r"
                  % (v, w, b, w.var_context))
    if not (isinstance(res, tuple) and len(res) == 2 and isinstance(res[1], dict)):
        obs.fail("result-not-data-context-pair:" + what, "%r(%r) returned %r" % (v, x, res))
        return None
    out_ctx = res[1]
    rest_in = {k: w for k, w in in_ctx.items() if k != "variable"}
    rest_out = {k: w for k, w in out_ctx.items() if k != "variable"}
    obs.check(rest_in == rest_out, "context-outside-variable-changed:" + what,
              "%r applied to context %r gives %r: keys other than 'variable' changed"
              % (v, in_ctx, out_ctx))
    if gen.has_ctx(x):
        obs.check(gen.data_of(x) == in_data, "input-data-changed:" + what,
                  "%r changed the data of its argument from %r to %r"
                  % (v, in_data, gen.data_of(x)))
    # the context it produced holds copies of the variable's description: no dict / list of the
    # variable (not even inside a tuple, like var_context["combine"]) is handed out
    from rv.monitors import identity
    own = {}
    for w in vs:
        identity.mutable_ids(w.var_context, into=own)
    handed = [o for i, o in identity.mutable_ids(out_ctx).items() if i in own]
    obs.count("identity_checks")
    obs.check(not handed, "result-context-shares-object-with-variable:" + what,
              "%r applied to %r: the yielded context %r holds the very object %r of the "
              "variable's var_context" % (v, x, out_ctx, handed[:1]))
    invs.append(copy.deepcopy(res))
    # what a consumer may do with the yielded context: change it in place at every level
    for o in list(identity.mutable_ids(out_ctx).values()):
        if isinstance(o, dict):
            o["__changed_downstream__"] = 1
        elif isinstance(o, list):
            o.append("__changed_downstream__")
        elif isinstance(o, set):
            o.add("__changed_downstream__")
        elif isinstance(o, Cut):
            o.notes.append("__changed_downstream__")
    return invs[-1]


def check_types_model(obs, sr, chain, var_ctx, what, named):
    """Independent model of context.variable for typed chains."""
    lv = []
    for v in chain:
        lv.extend(leaves(v))
    types = [t for _, t, _ in lv]
    old = (sr["c"] or {}).get("variable") or {}
    old_types = []
    if "type" in old:
        old_types = list(old.get("compose", [old["type"]]))
    exp_compose = old_types + types
    obs.count("model_contexts_checked")
    cls = TRIG if trigger(chain, sr, what) else "other"
    if len(exp_compose) >= 2:
        obs.check(var_ctx.get("compose") == exp_compose,
                  "compose-list-not-application-order:" + cls,
                  "%s of %r on start %r: variable.compose = %r, types in application order "
                  "are %r" % (what, chain, sr, var_ctx.get("compose"), exp_compose))
    else:
        obs.check("compose" not in var_ctx or var_ctx["compose"] == exp_compose,
                  "compose-list-not-application-order:" + cls,
                  "%s of %r on start %r: variable.compose = %r for a single application of "
                  "type %r" % (what, chain, sr, var_ctx.get("compose"), exp_compose))
    for name, t, own in lv:
        if isinstance(own, tuple):
            sub = var_ctx.get(t)
            obs.check(isinstance(sub, dict) and sub.get("name") == name
                      and sub.get("dim") == own[1] and len(sub.get("combine", ())) == own[1],
                      "type-attributes-lost:" + cls,
                      "%s of %r on start %r: variable[%r] = %r, expected the description of "
                      "Combine %r (name, dim = %d and the contexts of its %d variables)"
                      % (what, chain, sr, t, var_ctx.get(t), name, own[1], own[1]))
        else:
            obs.check(var_ctx.get(t) == own, "type-attributes-lost:" + cls,
                      "%s of %r on start %r: variable[%r] = %r, expected %r"
                      % (what, chain, sr, t, var_ctx.get(t), own))
    for t in old_types:
        obs.check(var_ctx.get(t) == old.get(t), "earlier-type-attributes-lost:" + cls,
                  "%s of %r on start %r: attributes of the earlier type %r are %r, were %r"
                  % (what, chain, sr, t, var_ctx.get(t), old.get(t)))
    last = chain[-1]
    if last[0] == "var":
        own = {"name": last[1]}
        own.update(_attrs(last[4]))
        if named:
            own.pop("name")     # judged by the separate name= oracle
        got = {k: var_ctx.get(k) for k in own}
        obs.check(got == own, "resulting-variable-attributes-wrong:" + what,
                  "%s of %r on start %r: variable carries %r, the last variable has %r"
                  % (what, chain, sr, got, own))
        obs.check(var_ctx.get("type", "") == last[3],
                  "resulting-variable-attributes-wrong:" + what,
                  "%s: variable.type = %r, expected %r" % (what, var_ctx.get("type"), last[3]))


def run_chain(r, obs):
    import lena.core
    import lena.variables
    chain, name = r["chain"], r["name"]
    n = len(chain)
    kw = {"name": name} if name else {}
    for sr in r["starts"]:
        shape = start_shape(sr)
        if n >= 2 and sr["c"] is not None:
            obs.nontrivial = True
        # three independent builds from the recipe: Compose, Sequence, direct model
        comp = lena.variables.Compose(*[build_var(v) for v in chain], **kw)
        seq_vars = [build_var(v) for v in chain]
        seq = lena.core.Sequence(*seq_vars)
        data0 = gen.data_of(mkstart(sr))
        exp_data = data0
        for v in chain:
            exp_data = model_get(v, exp_data)
        comp_results, seq_results = [], []
        for rep in range(3):
            res = apply_recorded(comp, mkstart(sr), obs, "Compose", comp_results)
            if res is None:
                return
            x = mkstart(sr)
            before = [[copy.deepcopy(w.var_context) for w in all_vars(v)] for v in seq_vars]
            sres = list(seq.run(iter([x])))
            after = [[w.var_context for w in all_vars(v)] for v in seq_vars]
            obs.count("var_context_snapshots_compared", len(seq_vars))
            obs.check(before == after, "var_context-changed-by-call:Sequence",
                      "running Sequence%r changed a var_context: %r -> %r"
                      % (chain, before, after))
            if not obs.check(len(sres) == 1 and gen.has_ctx(sres[0]),
                             "sequence-of-variables-wrong-shape",
                             "Sequence%r.run([%r]) = %r" % (chain, mkstart(sr), sres)):
                return
            seq_results.append(sres[0])
            sd, sc = sres[0]
            obs.count("compose_vs_sequence_compared")
            # data: Compose == Sequence == nested getters
            obs.check(res[0] == exp_data and type(res[0]) is type(exp_data),
                      "data-differs-from-nested-getters:Compose",
                      "Compose%r(%r) data %r, nested getters give %r"
                      % (chain, mkstart(sr), res[0], exp_data))
            obs.check(sd == exp_data and type(sd) is type(exp_data),
                      "data-differs-from-nested-getters:Sequence",
                      "Sequence%r on %r data %r, nested getters give %r"
                      % (chain, mkstart(sr), sd, exp_data))
            # whole context: Compose == Sequence (the name= keyword is judged separately)
            exp_ctx, got_ctx = copy.deepcopy(sc), copy.deepcopy(res[1])
            if name:
                exp_ctx.get("variable", {}).pop("name", None)
                got_ctx.get("variable", {}).pop("name", None)
            cls = TRIG if (trigger(chain, sr, "Compose") or trigger(chain, sr, "Sequence")) \
                else "other"
            obs.check(got_ctx == exp_ctx, "compose-context-differs-from-sequence:" + cls,
                      "start %r: Compose%r gives context %r, the Sequence of the same "
                      "variables gives %r%s"
                      % (mkstart(sr), chain, got_ctx, exp_ctx,
                         " (variable.name left out: name= given)" if name else ""))
            if rep == 0 and name:
                obs.check(res[1].get("variable", {}).get("name") == name,
                          "compose-name-keyword-ignored",
                          "Compose(%r, name=%r) gives variable.name %r"
                          % (chain, name, res[1].get("variable", {}).get("name")))
            if rep == 0 and r["typed"]:
                check_types_model(obs, sr, chain, res[1].get("variable", {}), "Compose",
                                  bool(name))
                check_types_model(obs, sr, chain, sc.get("variable", {}), "Sequence", False)
        # the same variable OBJECT at two positions (v, w, w): Compose and the Sequence of those
        # objects still agree
        if n >= 1 and sr is r["starts"][0]:
            objs = [build_var(v) for v in chain]
            for pattern in ([0, -1, -1], [0, -1, 0], [-1, -1]):
                rep_objs = [objs[i] for i in pattern] if n > 1 else [objs[0], objs[0], objs[0]]
                try:
                    cres = lena.variables.Compose(*rep_objs)(mkstart(sr))
                    sres2 = list(lena.core.Sequence(*rep_objs).run(iter([mkstart(sr)])))
                except Exception as e:  # pylint: disable=broad-except
                    obs.count("repeated_object_compositions_raised")
                    continue
                obs.count("compose_vs_sequence_compared")
                obs.check(len(sres2) == 1 and freeze(cres) == freeze(sres2[0]),
                          "compose-context-differs-from-sequence:repeated-variable-object",
                          "Compose and Sequence of the same variable objects in the pattern %r "
                          "(chain %r): Compose gives %r, Sequence %r"
                          % (pattern, chain, cres, sres2))
        for what, results in (("Compose", comp_results), ("Sequence", seq_results)):
            f0 = freeze(results[0])
            obs.check(all(freeze(x) == f0 for x in results[1:]),
                      "repeated-application-differs:" + what,
                      "%s%r applied three times to equal values %r gives %r"
                      % (what, chain, mkstart(sr), [freeze(x) for x in results]))


def run_combine(r, obs):
    import lena.variables
    vs_r, name, t = r["vars"], r["name"], r["type"]
    kw = {}
    if name:
        kw["name"] = name
    if t:
        kw["type"] = t
    for sr in r["starts"]:
        if len(vs_r) >= 2 and sr["c"] is not None:
            obs.nontrivial = True
        parts = [build_var(v) for v in vs_r]
        comb = lena.variables.Combine(*parts, **kw)
        results = []
        data0 = gen.data_of(mkstart(sr))
        exp_data = tuple(model_get(v, data0) for v in vs_r)
        exp_name = name if name else "_".join(v[1] for v in vs_r)
        part_ctx = tuple(copy.deepcopy(p.var_context) for p in parts)
        for rep in range(3):
            res = apply_recorded(comb, mkstart(sr), obs, "Combine", results)
            if res is None:
                return
            obs.count("combine_checked")
            obs.check(res[0] == exp_data and isinstance(res[0], tuple),
                      "combine-data-not-tuple-of-getters",
                      "Combine%r(%r) data %r, getters give %r"
                      % (vs_r, mkstart(sr), res[0], exp_data))
            var = res[1].get("variable", {})
            obs.check(var.get("name") == exp_name and var.get("dim") == len(vs_r),
                      "combine-name-or-dim-wrong",
                      "Combine%r name=%r: variable.name %r dim %r, expected %r and %d"
                      % (vs_r, name, var.get("name"), var.get("dim"), exp_name, len(vs_r)))
            obs.check(tuple(var.get("combine", ())) == part_ctx,
                      "combine-contexts-wrong",
                      "Combine%r: variable.combine %r, the variables' contexts are %r"
                      % (vs_r, var.get("combine"), part_ctx))
            if t:
                sub = var.get(t)
                obs.check(var.get("type") == t and isinstance(sub, dict)
                          and sub.get("name") == exp_name and sub.get("dim") == len(vs_r)
                          and tuple(sub.get("combine", ())) == part_ctx,
                          "combine-type-subcontext-wrong",
                          "Combine%r type=%r: variable.type %r, variable[type] %r"
                          % (vs_r, t, var.get("type"), var.get(t)))
            obs.check(all(comb[i] is parts[i] for i in range(len(parts))),
                      "combine-getitem-wrong", "Combine[i] is not the i-th variable")
        f0 = freeze(results[0])
        obs.check(all(freeze(x) == f0 for x in results[1:]),
                  "repeated-application-differs:Combine",
                  "Combine%r applied three times to equal values %r gives %r"
                  % (vs_r, mkstart(sr), [freeze(x) for x in results]))


def _first(d):
    """Getter on list data: numeric view of the first item."""
    return gen._num(d[0]) if isinstance(d, (list, tuple)) and d else gen._num(d)


def run_reuse(r, obs):
    import lena.core
    import lena.variables
    obs.nontrivial = True
    chain = r["chain"]
    parts = [build_var(v) for v in chain]
    # the first variable reads the event (a list), the others transform the number
    first = lena.variables.Variable(chain[0][1] + "_ev", _first, type="evt")
    allv = [first] + parts
    if r["form"] == "compose":
        target = lena.variables.Compose(*allv)
    else:
        target = first
    seqtwin = lena.core.Sequence(*[copy.deepcopy(v) for v in allv]) \
        if r["form"] == "compose" else None
    event = []
    for step in r["steps"]:
        event[:] = step                 # the same list object, refilled in place
        exp = _first(event)
        if r["form"] == "compose":
            for v in chain:
                exp = gen.DATA_FUNCS[v[2]](exp)
        got = target(event)
        obs.count("applications_to_a_reused_data_object")
        obs.check(gen.data_of(got) == exp, "data-differs-from-nested-getters:reused-data-object",
                  "%s of %r applied to the list object %r (refilled in place since the previous "
                  "application) gives data %r, the nested getters give %r"
                  % (r["form"], chain, event, gen.data_of(got), exp))
        if seqtwin is not None:
            sres = list(seqtwin.run(iter([event])))
            obs.check(len(sres) == 1 and gen.data_of(sres[0]) == gen.data_of(got),
                      "compose-data-differs-from-sequence:reused-data-object",
                      "Compose gives %r, the Sequence of the same variables %r for the reused "
                      "list %r" % (gen.data_of(got), sres, event))


def run_attrs(r, obs):
    import lena.variables
    obs.nontrivial = True
    v = build_var(r["var"])
    for n, op in enumerate(r["ops"]):
        if op == "setattr":
            v.unit = "u%d" % n
        elif op == "var_context":
            v.var_context["label"] = "L%d" % n
        elif op == "inplace":
            v.range[1] = 100 + n
        exp = copy.deepcopy(v.var_context)
        val = (3, {"i": n}) if r["ctx"] else 3
        got = v(val)
        obs.count("applications_after_attribute_changes")
        var = got[1].get("variable") if gen.has_ctx(got) else None
        obs.check(var == exp, "context-variable-not-the-current-attributes:after-" + op,
                  "Variable %r after the changes %r: context.variable = %r, the variable's "
                  "var_context is %r" % (r["var"], r["ops"][:n + 1], var, exp))
        obs.check(v.var_context == exp, "var-context-changed-by-call",
                  "var_context %r -> %r" % (exp, v.var_context))
        if isinstance(var, dict):
            # the value's context must not alias the variable's own dictionary
            var["poisoned-downstream"] = 1
            if isinstance(var.get("range"), list):
                var["range"].append("x")
            obs.check(v.var_context == exp, "var-context-changed-by-call",
                      "changing the yielded context.variable in place changed var_context to %r"
                      % (v.var_context,))


_reported = {}
MAX_PER_MECH = 4   # the worker keeps at most 200 violations: one mechanism must not fill it


# ------------------------------------------------------------------ data of every shape
DATA_SHAPES = ["intermediate-pair-lookalike", "list-with-dict-second", "list-of-two", "deque-with-dict-second", "generator",
               "iterator-of-two-with-dict", "dict", "string-of-two", "triple", "set",
               "list-with-dict-second-in-context"]


def mk_shaped(shape):
    """-> (value, data object, snapshot function of the data)."""
    import collections
    inner = {"pt": 3.5, "tags": [1]}
    if shape in ("list-with-dict-second", "list-with-dict-second-in-context"):
        d = ["mu", inner]
    elif shape == "list-of-two":
        d = [3, 4]
    elif shape == "deque-with-dict-second":
        d = collections.deque(["mu", inner])
    elif shape == "generator":
        d = (i * i for i in range(5))
    elif shape == "iterator-of-two-with-dict":
        d = iter(["mu", inner])
    elif shape == "dict":
        d = {"a": 1, "b": inner}
    elif shape == "string-of-two":
        d = "ab"
    elif shape == "triple":
        d = (1, {"x": 1}, 2)
    elif shape == "set":
        d = frozenset([1, 2])
    else:
        raise ValueError(shape)
    value = (d, {"i": 1}) if shape.endswith("in-context") else d
    return value, d, inner


class Describe(object):
    """Getter that reports what it was given: the type of the data and all of its items."""

    def __call__(self, d):
        if isinstance(d, (str, dict, frozenset)):
            return (type(d).__name__, gen.freeze(d) if not isinstance(d, frozenset) else sorted(d))
        try:
            items = list(d)
        except TypeError:
            return (type(d).__name__, d)
        return (type(d).__name__, gen.freeze(items))


def run_shapes(r, obs):
    """A value without context whose data is some container / iterator: the data is the value
    itself; the getter receives it whole and untouched, nothing inside it becomes context."""
    import lena.core
    import lena.variables
    obs.nontrivial = True
    shape, form = r["shape"], r["form"]
    if shape == "intermediate-pair-lookalike":
        # a getter in the MIDDLE of a composition returns a 2-tuple whose second item is a dict
        # (a hit selected from an event): it is that getter's result, handed on whole
        pick = lena.variables.Variable("hit", lambda ev: ((ev, ev + 1), {"detector": "A"}),
                                       type="hit")
        whole = lena.variables.Variable("whole", lambda h: ("got", h), type="probe")
        after = lena.variables.Variable("second", lambda g: g[1][1], type="last")
        expected3 = {"detector": "A"}
        if form == "single":
            res = lena.variables.Compose(pick, whole)(5)
            exp = ("got", ((5, 6), {"detector": "A"}))
        elif form == "compose":
            res = lena.variables.Compose(pick, whole, after)((5, {"i": 1}))
            exp = expected3
        elif form == "sequence":
            out = list(lena.core.Sequence(pick, whole, after).run(iter([5])))
            res = out[0] if len(out) == 1 else None
            exp = expected3
        elif form.startswith("combine-"):
            # the pair-lookalike is the data a Combine receives: each of its getters gets it whole
            first = lena.variables.Variable("first", lambda h: h[0], type="f")
            second = lena.variables.Variable("second", lambda h: h[1], type="s")
            comb = lena.variables.Combine(first, second)
            record = ((5, 6), {"detector": "A"})
            exp = ((5, 6), {"detector": "A"})
            if form == "combine-after-getter":
                res = lena.variables.Compose(pick, comb)(5)
            elif form == "combine-on-record":
                res = comb((record, {"i": 1}))
            elif form == "combine-in-sequence":
                out = list(lena.core.Sequence(pick, comb).run(iter([(5, {"i": 1})])))
                res = out[0] if len(out) == 1 else None
            else:
                res = lena.variables.Combine(comb, second)((record, {"i": 1}))
                exp = (exp, {"detector": "A"})
        else:
            res = lena.variables.Combine(lena.variables.Compose(pick, whole),
                                         lena.variables.Compose(pick, whole, after))(5)
            exp = (("got", ((5, 6), {"detector": "A"})), expected3)
        obs.count("shaped_data_applications")
        ok = isinstance(res, tuple) and len(res) == 2 and isinstance(res[1], dict)
        obs.check(ok and res[0] == exp, "data-differs-from-nested-getters:intermediate-pair-lookalike",
                  "%s over a getter whose result is a 2-tuple with a dict second: data %r, nested "
                  "getters give %r" % (form, res[0] if ok else res, exp))
        return
    describe = Describe()
    _, ref_d, _ = mk_shaped(shape)
    expected = describe(ref_d)
    value, d, inner = mk_shaped(shape)
    inner_before = copy.deepcopy(inner)
    v1 = lena.variables.Variable("what", describe, type="probe")
    ident = lena.variables.Variable("same", lambda x: x, type="identity")
    if form == "single":
        res = v1(value)
        exp_data = expected
    elif form == "compose":
        res = lena.variables.Compose(ident, v1)(value)
        exp_data = expected
    elif form == "sequence":
        out = list(lena.core.Sequence(ident, v1).run(iter([value])))
        res = out[0] if len(out) == 1 else None
        exp_data = expected
    else:
        res = lena.variables.Combine(v1, lena.variables.Variable("n", lambda x: 1))(value)
        exp_data = (expected, 1)
    obs.count("shaped_data_applications")
    if not (isinstance(res, tuple) and len(res) == 2 and isinstance(res[1], dict)):
        obs.fail("result-not-data-context-pair:shaped-data",
                 "%s applied to data of shape %s returned %r" % (form, shape, res))
        return
    obs.check(res[0] == exp_data, "data-differs-from-nested-getters:shaped-data:" + (
        "iterator" if "iterator" in shape or shape == "generator" else "container"),
              "%s applied to a value without context whose data is %s: data %r, the getter "
              "applied to the whole data gives %r" % (form, shape, res[0], exp_data))
    rest = {k: w for k, w in res[1].items() if k != "variable"}
    exp_rest = {"i": 1} if shape.endswith("in-context") else {}
    obs.check(rest == exp_rest, "context-outside-variable-changed:shaped-data",
              "%s applied to data of shape %s: context %r has keys besides 'variable' "
              "(expected %r)" % (form, shape, res[1], exp_rest))
    obs.check(inner == inner_before, "input-data-changed:shaped-data",
              "%s applied to data of shape %s changed the dictionary inside the data from %r "
              "to %r" % (form, shape, inner_before, inner))


class FreshIter(object):
    """Getter returning a fresh one-shot iterator over the sorted data."""

    def __call__(self, d):
        return iter(sorted(d, reverse=True))


class FreshList(object):
    def __call__(self, d):
        return sorted(d)


def _take(it):
    return next(it)


def _total(it):
    return sum(it)


def _pop(lst):
    return lst.pop()


def _length(lst):
    return len(lst)


def run_stateful(r, obs):
    """Getters whose result is a fresh stateful object (a one-shot iterator, a new list that the
    next getter consumes): every composed chain works on the result of ITS OWN application of
    the first getter, as the Sequences of the same variables do."""
    import lena.core
    import lena.variables
    V = lena.variables.Variable
    obs.nontrivial = True
    data = tuple(r["data"])
    if r["head"] == "iter":
        mk_head = lambda: V("tracks", FreshIter(), type="particle")
        tails = [("leading", _take), ("rest", _total), ("rest2", _total)]
    else:
        mk_head = lambda: V("hits", FreshList(), type="particle")
        tails = [("last", _pop), ("n", _length), ("last2", _pop)]
    tails = tails[:r["n"]]
    if r["order"]:
        tails = tails[::-1]
    head = mk_head()
    heads = [head if r["shared"] else mk_head() for _ in tails]
    chains = [lena.variables.Compose(h, V(nm, f, type="t_" + nm))
              for h, (nm, f) in zip(heads, tails)]
    comb = lena.variables.Combine(*chains)
    exp = []
    for nm, f in tails:
        seq = lena.core.Sequence(mk_head(), V(nm, f, type="t_" + nm))
        out = list(seq.run(iter([data])))
        exp.append(out[0][0])
    exp = tuple(exp)
    for rep in range(2):
        res = comb(data if not r["ctx"] else (data, {"i": rep}))
        obs.count("stateful_getter_applications")
        if not (isinstance(res, tuple) and len(res) == 2):
            obs.fail("result-not-data-context-pair:stateful-getters", "Combine returned %r" % (res,))
            return
        obs.check(res[0] == exp, "combine-data-not-tuple-of-getters:stateful-getter-results",
                  "Combine of %d Compose(head, tail) variables (%s first variable object, head "
                  "getter returns a fresh %s) on %r gives %r, the Sequences of the same variables "
                  "give %r" % (len(tails), "one shared" if r["shared"] else "separate",
                               "iterator" if r["head"] == "iter" else "list", data, res[0], exp))


def run_getter_fails(r, obs):
    """A getter that raises (StopIteration: next() on an exhausted iterator) for the datum: the
    application fails; Combine never returns a tuple shorter than its dim."""
    import lena.core
    import lena.variables
    V = lena.variables.Variable
    obs.nontrivial = True
    exc = {"StopIteration": StopIteration, "KeyError": KeyError, "IndexError": IndexError}[r["exc"]]

    def bad(d):
        raise exc("no constant for %r" % (d,))
    good = lambda d: d
    vs = [V("v%d" % i, bad if i == r["pos"] else good, type="t%d" % i) for i in range(r["n"])]
    if r["form"] == "combine":
        var = lena.variables.Combine(*vs)
    elif r["form"] == "combine-in-compose":
        var = lena.variables.Compose(V("first", good, type="f"), lena.variables.Combine(*vs))
    elif r["form"] == "combine-in-combine":
        var = lena.variables.Combine(lena.variables.Combine(*vs), V("last", good, type="l"))
    else:
        var = lena.variables.Compose(*vs)
    value = (3, {"i": 1}) if r["ctx"] else 3
    try:
        if r["via"] == "sequence":
            res = list(lena.core.Sequence(var).run(iter([value])))
            res = res[0] if len(res) == 1 else ("results", res)
        else:
            res = var(value)
    except Exception:  # pylint: disable=broad-except
        obs.count("getter_failures_propagated")
        return
    obs.count("getter_failures_swallowed")
    obs.fail("getter-exception-swallowed:" + r["exc"],
             "%s of %d variables, getter no. %d raises %s for the datum; applied %s it returned "
             "%r instead of failing" % (r["form"], r["n"], r["pos"], r["exc"], r["via"], res))


def run_sharedtail(r, obs):
    """One variable object applied after different upstream variables that have the same type
    (x after positron, then x after neutron - both particles): each result describes its own
    chain, exactly as with a variable object of its own."""
    import lena.core
    import lena.variables
    obs.nontrivial = True
    V = lena.variables.Variable

    def heads():
        hs = [V("positron", lambda d: d, type="particle", latex_name="e^+", charge=1),
              V("neutron", lambda d: d, type="particle", latex_name="n", mass=939.6),
              V("muon", lambda d: d, type="particle", latex_name="mu")]
        return hs[::-1] if r["order"] else hs

    def tail():
        return V("x", lambda d: d + 1, type="coordinate", unit="mm")
    shared = tail()

    def apply(head, x, value):
        if r["via"] == "call":
            return x(head(value))
        if r["via"] == "sequence":
            out = list(lena.core.Sequence(head, x).run(iter([value])))
            return out[0] if len(out) == 1 else out
        return x(lena.variables.Compose(head)(value))
    for rep in range(2):
        for head_shared, head_own in zip(heads(), heads()):
            got = apply(head_shared, shared, (1, {"i": rep}))
            exp = apply(head_own, tail(), (1, {"i": rep}))
            obs.count("compose_vs_sequence_compared")
            obs.check(freeze(got) == freeze(exp),
                      "variable-remembers-an-earlier-upstream-variable",
                      "x applied after %s (via %s, the same x object was applied after other "
                      "particles before): %r; an x of its own gives %r"
                      % (head_own.name, r["via"], got, exp))


def run_longcompose(r, obs):
    import lena.variables as LV
    n = r["n"]
    obs.nontrivial = True

    def mk():
        vs = []
        for i in range(n):
            kw = {"type": "t%d" % i} if r["typed"] else {}
            vs.append(LV.Variable("v%d" % i, (lambda x, i=i: x + (i % 7) + 1), **kw))
        return vs
    for start in (0, (3, {"run": 1})):
        try:
            comp = LV.Compose(*mk())
            got = comp(start)
        except Exception as e:  # pylint: disable=broad-except
            obs.fail("long-compose-raises:" + type(e).__name__,
                     "Compose of %d variables applied to %r raised %r" % (n, start, e))
            return
        cur = start
        for v in mk():
            cur = v(cur)
        obs.count("long_compositions")
        gd, gc = got
        cd, cc = cur
        obs.check(gd == cd, "long-compose-data-differs",
                  "Compose of %d variables applied to %r gives data %r, the getters applied one "
                  "after the other %r" % (n, start, gd, cd))
        # the description of the last variable, and of every typed one under its type
        gv, cv = gc.get("variable", {}), cc.get("variable", {})
        same = gv.get("name") == cv.get("name")
        if r["typed"]:
            same = same and all(gv.get("t%d" % i) == cv.get("t%d" % i) for i in range(n))
            same = same and gv.get("compose") == cv.get("compose")
        obs.check(same, "long-compose-context-differs",
                  "Compose of %d %svariables applied to %r: context.variable name %r / %d keys, "
                  "the variables applied one after the other give name %r / %d keys"
                  % (n, "typed " if r["typed"] else "", start, gv.get("name"), len(gv),
                     cv.get("name"), len(cv)))


def run_case(r, obs):
    del CONSTRUCTION_CHANGES[:]
    try:
        if r["k"] == "longcompose":
            run_longcompose(r, obs)
        elif r["k"] == "sharedtail":
            run_sharedtail(r, obs)
        elif r["k"] == "chain":
            run_chain(r, obs)
        elif r["k"] == "shapes":
            run_shapes(r, obs)
        elif r["k"] == "getter_fails":
            run_getter_fails(r, obs)
        elif r["k"] == "stateful":
            run_stateful(r, obs)
        elif r["k"] == "reuse":
            run_reuse(r, obs)
        elif r["k"] == "attrs":
            run_attrs(r, obs)
        else:
            run_combine(r, obs)
    finally:
        for msg in CONSTRUCTION_CHANGES[:1]:
            obs.fail("construction-changes-component-variable", msg)
        obs.count("constructions_checked")
        kept = []
        for v in obs.violations:
            _reported[v["mech"]] = _reported.get(v["mech"], 0) + 1
            if _reported[v["mech"]] <= MAX_PER_MECH:
                kept.append(v)
            else:
                obs.count("violations_beyond_the_first_%d_per_mechanism_and_worker"
                          % MAX_PER_MECH)
        obs.violations[:] = kept


RULE += (' Added: one mutable data object refilled in place between applications of a Compose; attribute changes between applications (assignment, var_context, in-place list change).')
RULE += (' Added: values without context whose data is a list / deque / iterator / generator / dict '
         '/ string (a 2-item list with a dict second among them) through Variable, Compose, '
         'Sequence and Combine; Combine of Compose variables that share their first variable '
         'object and whose getters return fresh iterators / lists consumed by the next getter.')
RULE += (' Added: tuple-valued attributes holding lists / dicts; after every application the yielded '
         'context is walked for objects of the variable (identity, into tuples) and then changed in '
         'place at every level; getters that raise StopIteration / KeyError / IndexError for the '
         'datum in Combine / Compose (the application must fail).')
RULE += (' Added: a 2-tuple with a dict second as the data a Combine receives (after a getter, '
         'as a record with its own context, in a Sequence, in another Combine).')
RULE += (' Added: compositions nested behind variables without a type (corner cases).')
RULE += (' Added: one variable object applied after different upstream variables of one type, '
         'against a variable object of its own.')

RULE += (' Round 10: Compose of 17..2500 variables (typed and untyped) against the getters applied one after the other.')
