"""C04 - context non-interference between Split/Zip branches and across accumulators.

(a) Branch isolation.  A Split (run-, fill- and request-driven) or Zip whose
    branches mutate data and context *in place* is executed on a flow without
    aliasing; every output is tagged with its branch.  Oracle: the outputs of
    branch j (snapshot taken when yielded, and again after the whole run) equal
    those of the same branch alone - ``Split([branch_j], bufsize)`` driven with
    the same schedule on a private deep copy of the flow.
(b) Accumulator results.  Identity-graph monitor (rv.monitors.identity): the
    context of every value yielded by compute()/request() shares no mutable
    object with the context of any filled value nor with a context yielded
    earlier.  Destructive follow-up: every yielded context is then mutated in
    place at every level; the filled values, the earlier results and every later
    compute() (compared with an unmolested twin that received equal values) must
    be unchanged.
"""
import copy
import decimal
from fractions import Fraction

from rv import gen
from rv.monitors import identity

ID = "C04"
LEVEL = "exploration"
RULE = ("seeded random: (a) Split with 1..4 branches of kind sequence / fill-compute / "
        "fill-request built from in-place mutators (user data and context mutators, Variable, "
        "UpdateContext, MakeFilename, Count) around Sum/Mean/Count/StoreFilled/Histogram, "
        "bufsize 1..4/1000/None, driven by run, by fill+compute and by fill+request schedules; "
        "Zip of fill-compute and of fill-request sequences; flows 0..6 values with mutable data "
        "and a fresh context tree each. (b) every aggregate accumulator (Count, Sum, DSum, Mean, "
        "VarianceMeanCount, Vectorize, Histogram, SplitIntoBins, Graph, FillRequest around "
        "them, Split/Zip of them) x fill sequences 0..6 x 1..4 compute()/request() calls. "
        "Non-trivial: (a) >= 2 branches, a non-empty flow and at least one mutator; (b) at "
        "least one filled value with a non-empty context and a compute after it")
ASSUMPTIONS = [
    "flows are generated without pre-existing aliasing: every value has its own data object "
    "and its own context tree, no value occurs twice",
    "generated mutators are total and deterministic; branch elements are fresh per arrangement",
    "the solo reference is Split([branch], bufsize) (same buffering schedule), so only "
    "interference between branches is judged, not the schedule (C03)",
    "StoreFilled and GroupBy are excluded from (b): their documented result is the filled "
    "values themselves",
    "filled values are snapshotted after compute() and before the destructive mutation (an "
    "element updating the context it was given during compute is not judged here)",
]
ANCHORS = [("lena/core/split.py", 251, 267), ("lena/core/split.py", 274, 411),
           ("lena/flow/zip.py", 100, 145), ("lena/math/elements.py", 72, 116),
           ("lena/math/elements.py", 174, 183), ("lena/math/elements.py", 235, 244),
           ("lena/math/elements.py", 321, 376), ("lena/math/elements.py", 469, 501),
           ("lena/flow/elements.py", 41, 54), ("lena/structures/histogram.py", 434, 447),
           ("lena/structures/split_into_bins.py", 335, 405),
           ("lena/structures/graph.py", 502, 522)]
MUST_REACH = [
    "lena/core/split.py:Split.run", "lena/core/split.py:Split._fill",
    "lena/core/split.py:Split._compute", "lena/core/split.py:Split._request",
    "lena/flow/zip.py:Zip._fill", "lena/flow/zip.py:Zip._compute", "lena/flow/zip.py:Zip._request",
    "lena/math/elements.py:Sum.compute", "lena/math/elements.py:DSum.compute",
    "lena/math/elements.py:Mean.compute", "lena/math/elements.py:VarianceMeanCount.compute",
    "lena/math/elements.py:Vectorize.compute", "lena/flow/elements.py:Count.compute",
    "lena/structures/histogram.py:Histogram.compute",
    "lena/structures/split_into_bins.py:SplitIntoBins.compute",
    "lena/structures/graph.py:Graph.compute",
]
MUST_COUNT = ["branch_outputs_compared", "identity_graphs_walked", "contexts_mutated",
              "later_computes_compared"]
MIN_NONTRIVIAL = {"quick": 9000, "thorough": 350000}
NCASES = {"quick": (8000, 8000), "thorough": (300000, 300000)}
NBIG = {"quick": 250, "thorough": 8000}

LEVEL_TEXT = ("Seeded random exploration. (a) every generated Split/Zip program is executed on "
              "the real code and each branch's tagged outputs are compared with the same "
              "branch alone on a private deep copy; (b) every compute()/request() of every "
              "aggregate accumulator is watched by an identity-graph walker (no mutable object "
              "shared with filled contexts or earlier results) followed by a destructive "
              "mutation of the result with comparison of inputs, earlier results and later "
              "computes against an unmolested twin. Held on the K cases in the evidence; "
              "silent about user elements outside the mutator vocabulary.")
LEVEL_NOTE = ("Trusts copy.deepcopy for the private copies and the single-branch Split as the "
              "solo reference; aliasing through objects other than dict/list/set/instances "
              "is not visible to the walker (contexts are JSON-like trees).")
TECHNIQUE = "identity-graph monitor + destructive follow-up; solo-vs-in-Split reference runs"


# ------------------------------------------------------------------ user elements
def _numview(x):
    return gen._num(x)   # total numeric view


class Energy(float):
    """A number with mutable attributes (a measured value that carries its tags): a subclass of
    an immutable builtin is still an object that can be changed in place."""

    def __new__(cls, x, tags=()):
        self = float.__new__(cls, x)
        self.tags = list(tags)
        return self

    def __reduce__(self):
        return (Energy, (float(self), self.tags))

    def __deepcopy__(self, memo):
        return Energy(float(self), copy.deepcopy(self.tags, memo))

    def __repr__(self):
        return "Energy(%r, tags=%r)" % (float(self), self.tags)


class Label(str):
    def __new__(cls, x, tags=()):
        self = str.__new__(cls, x)
        self.tags = list(tags)
        return self

    def __reduce__(self):
        return (Label, (str(self), self.tags))

    def __deepcopy__(self, memo):
        return Label(str(self), copy.deepcopy(self.tags, memo))


def m_dapp(v):
    d = gen.data_of(v)
    if isinstance(d, list):
        d.append(len(d))
    elif isinstance(d, (Energy, Label)):
        d.tags.append(len(d.tags))
    return v


def m_dinc(v):
    d = gen.data_of(v)
    if isinstance(d, list) and d and isinstance(d[0], int) and not isinstance(d[0], bool):
        d[0] += 1
    return v


def m_cset(key):
    def cset(v):
        if gen.has_ctx(v):
            v[1][key] = _numview(v[0])
            return v
        return (v, {key: _numview(v)})
    return cset


def m_cdeep(v):
    if gen.has_ctx(v):
        c = v[1]
        n = c.setdefault("n", {})
        if isinstance(n, dict):
            k = n.get("k", 0)
            n["k"] = (k + 1) if isinstance(k, int) else 1
        l = c.get("l")
        if isinstance(l, list):
            l.append(len(l))
    return v


def m_first(v):
    """Numeric view of the data (not in place), context object kept."""
    d = gen.data_of(v)
    if isinstance(d, (list, tuple)):
        d = d[0] if d else 0
    if isinstance(d, bool) or not isinstance(d, (int, float)):
        d = _numview(d)
    if gen.has_ctx(v):
        return (d, v[1])
    return d


def m_pack(v):
    """Last element of a Zip branch: makes the branch's context observable in the data."""
    if gen.has_ctx(v):
        return ["packed", v[0], v[1]]
    return ["packed", v, None]


GETTERS = {
    "dbl0": lambda d: ([d[0] * 2] + list(d[1:])) if isinstance(d, list) and d and
    isinstance(d[0], (int, float)) else d,
    "idg": lambda d: d,
    "wrap": lambda d: [d],
}


_SHARED = {}


def _new_shared():
    """Objects a user defines once and uses in several branches of one program (a Variable is
    a description of a quantity: the same object is passed wherever that quantity is used)."""
    import lena.variables
    _SHARED["var"] = lena.variables.Variable("sh", GETTERS["idg"], type="coordinate", unit="mm")


def build_mut(mr):
    import lena.context
    import lena.flow
    import lena.output
    import lena.variables
    k = mr[0]
    if k == "dapp":
        return m_dapp
    if k == "svar":
        return _SHARED["var"]
    if k == "sset":
        import lena.meta
        return lena.meta.SetContext(mr[1], copy.deepcopy(mr[2]))
    if k == "ucfs":
        import lena.core
        import lena.meta
        # (UpdateContextFromStatic takes (data, context) pairs: the value gets a context first)
        return lena.core.Sequence(m_cset("u"), lena.meta.UpdateContextFromStatic())
    if k == "dinc":
        return m_dinc
    if k == "cset":
        return m_cset(mr[1])
    if k == "cdeep":
        return m_cdeep
    if k == "var":
        kw = {"type": mr[3]} if mr[3] else {}
        return lena.variables.Variable(mr[1], GETTERS[mr[2]], **kw)
    if k == "updctx":
        return lena.context.UpdateContext(mr[1], mr[2])
    if k == "mkfn":
        if mr[1] == "suffix":
            return lena.output.MakeFilename(suffix=mr[2])
        if mr[1] == "prefix":
            return lena.output.MakeFilename(prefix=mr[2])
        return lena.output.MakeFilename(filename=mr[2], overwrite=True)
    if k == "count":
        return lena.flow.Count(mr[1])
    if k == "slice":
        # in a fill branch it works through fill_into and signals LenaStopFill, so Split.run
        # finalises and drops the branch in the middle of a block
        return lena.flow.Slice(mr[1])
    raise AssertionError(mr)


def rand_mut(rng, allow_count=True):
    k = rng.choice(["dapp", "dinc", "cset", "cset", "cdeep", "cdeep", "var", "updctx", "mkfn",
                    "svar"] + (["count"] if allow_count else []))
    if k == "cset":
        return ["cset", rng.choice(["a", "b", "i"])]
    if k == "dapp" and rng.random() < 0.35:
        # elements of the static context: what a branch sets is seen by that branch only
        return rng.choice([["sset", "stat.k", rng.randint(0, 3)], ["sset", "output.prefix", "p_"],
                           ["ucfs"], ["ucfs"], ["sset", "outer.o", 5]])
    if k == "var":
        return ["var", rng.choice(["x", "y"]), rng.choice(["dbl0", "idg", "wrap"]),
                rng.choice(["", "t1", "t2"])]
    if k == "updctx":
        return rng.choice([["updctx", "out.k", "{{i}}_x"], ["updctx", "n.k", 7],
                           ["updctx", "n", {"new": [1]}], ["updctx", "a.b", "{{a}}{{n.k}}"]])
    if k == "mkfn":
        return rng.choice([["mkfn", "suffix", "_s"], ["mkfn", "prefix", "p{{i}}_"],
                           ["mkfn", "filename", "f{{i}}"]])
    if k == "count":
        return ["count", rng.choice(["cnt", "c2"])]
    return [k]


def build_branch_acc(ar, fr=None):
    """Accumulator of a fill-compute / fill-request branch (with its numeric adapter)."""
    import lena.core
    import lena.flow
    import lena.math
    import lena.structures
    k = ar[0]
    pre = []
    if k == "sum":
        pre, el = [m_first], lena.math.Sum()
    elif k == "mean":
        pre, el = [m_first], lena.math.Mean(pass_on_empty=True)
    elif k == "countfc":
        el = lena.flow.Count(ar[1])
    elif k == "store":
        el = lena.flow.StoreFilled(yield_as_a_group=bool(ar[1]))
    elif k == "hist":
        pre, el = [m_first], lena.structures.Histogram([0, 2, 4, 8])
    elif k == "vmc":
        pre, el = [m_first], lena.math.VarianceMeanCount(corrected=False, pass_on_empty=True)
    elif k == "sibshared":
        # bins along the program's shared Variable
        inner = lena.math.Sum() if ar[1] == "sum" else lena.structures.Histogram([0, 5, 10])
        pre, el = [m_first], lena.structures.SplitIntoBins(inner, _SHARED["var"], [0, 2, 4, 8])
    else:
        raise AssertionError(ar)
    if fr is not None:
        el = lena.core.FillRequest(el, bufsize=fr[0], reset=bool(fr[1]), buffer_input=True)
    return pre + [el]


def rand_branch(rng, btype, stops=False):
    if btype == "src":
        return {"type": "src", "pre": [], "post": [],
                "vals": [rng.randint(50, 59) for _ in range(rng.randint(0, 2))]}
    return _rand_branch(rng, btype, stops)


def _rand_branch(rng, btype, stops=False):
    # Count is a Run, a FillInto and a FillCompute element at once: inside a fill-compute or
    # fill-request branch it would change the branch type, so it is used in sequences only
    ac = btype == "seq"
    b = {"type": btype,
         "pre": [rand_mut(rng, ac) for _ in range(rng.choice([0, 1, 1, 2, 3]))],
         "post": [rand_mut(rng, ac) for _ in range(rng.choice([0, 0, 1, 2]))]}
    if btype in ("fc", "fr"):
        b["acc"] = rng.choice([["sum"], ["mean"], ["countfc", "n"], ["store", 1], ["store", 0],
                               ["store", 1], ["hist"], ["vmc"]])
        if btype == "fc" and rng.random() < 0.15:
            b["acc"] = ["sibshared", rng.choice(["sum", "hist"])]
        # Count in the pre part of a fill sequence works through fill_into
    if btype == "fr":
        b["fr"] = [rng.randint(1, 3), rng.random() < 0.5]
    # UpdateContextFromStatic is a run element: it cannot stand before a fill element
    if btype in ("fc", "fr"):
        moved = [m for m in b["pre"] if m[0] == "ucfs"]
        b["pre"] = [m for m in b["pre"] if m[0] != "ucfs"]
        b["post"] = moved + b["post"]
    elif any(m[0] == "count" for m in b["pre"] + b["post"]):
        b["pre"] = [m for m in b["pre"] if m[0] != "ucfs"]
        b["post"] = [m for m in b["post"] if m[0] != "ucfs"]
    if stops and rng.random() < 0.45:
        # a branch that stops reading after n values - after the mutators before it have
        # already changed (their copy of) the values of the current block in place
        b["pre"].insert(rng.randint(0, len(b["pre"])), ["slice", rng.choice([0, 1, 1, 2, 2, 3])])
    return b


def branch_elements(b, tag, pack=False):
    els = [build_mut(m) for m in b["pre"]]
    if b["type"] in ("fc", "fr"):
        els += build_branch_acc(b["acc"], b.get("fr"))
    els += [build_mut(m) for m in b["post"]]
    if pack:
        els.append(m_pack)
    else:
        els.append(gen.Tag(tag))
    return els


# ------------------------------------------------------------------ flows
def rand_tree_ctx(rng, i):
    c = {"i": i}
    if rng.random() < 0.7:
        c["n"] = {"k": rng.randint(0, 3)}
        if rng.random() < 0.5:
            c["n"]["d"] = {"z": [i]}
    if rng.random() < 0.5:
        c["l"] = [i, {"z": i}]
    if rng.random() < 0.3:
        c["a"] = rng.randint(0, 5)
    if rng.random() < 0.2:
        c["output"] = {"suffix": "_o"}
    if rng.random() < 0.15:
        c["variable"] = {"name": "old", "type": "told", "told": {"name": "old"}}
    if rng.random() < 0.25:
        # tuples that hold dictionaries and lists (what Combine writes to
        # context.variable.combine and Zip to context.zip); ["TUPLE", ...] in the recipe
        c[rng.choice(["zip", "combine"])] = ["TUPLE", {"z": i}, {"w": [i], "t": ["TUPLE", [i]]}]
    return c


def rand_split_flow(rng, n=None, bare_first=0):
    if n is None:
        n = rng.choice([0, 1, 2, 3, 3, 4, 5, 6])
    fl = []
    bare = rng.random() < 0.15 and not bare_first
    # data that are instances of a subclass of float / str with a mutable attribute
    attr_data = rng.random() < 0.12
    # contexts of class lena.context.Context (what the Context() element produces): a dict
    # subclass that the framework's deep copies must copy as deeply as a plain dict
    ctxcls = rng.random() < 0.2
    for i in range(n):
        d = [rng.randint(0, 9)] + ([rng.randint(0, 9)] if rng.random() < 0.4 else [])
        if attr_data:
            d = {"E": rng.randint(0, 9) + 0.5, "tags": [i]} if rng.random() < 0.7 else \
                {"S": "s%d" % rng.randint(0, 9), "tags": []}
        if i < bare_first:
            fl.append({"d": rng.randint(0, 9), "c": None})
        elif bare or rng.random() < 0.1:
            fl.append({"d": d, "c": None})
        else:
            fl.append({"d": d, "c": rand_tree_ctx(rng, i)})
            if ctxcls:
                fl[-1]["cc"] = 1
    return fl


def mkflow(fr):
    """Fresh flow: new data object and new context tree for every value."""
    out = []
    for v in fr:
        d = copy.deepcopy(v["d"])
        if isinstance(d, dict) and "E" in d:
            d = Energy(d["E"], d.get("tags", ()))
        elif isinstance(d, dict) and "S" in d:
            d = Label(d["S"], d.get("tags", ()))
        if v["c"] is None:
            out.append(d)
        else:
            out.append((d, _mkctx(v)))
    return out


def _tuples(x):
    """Recipe form -> value: lists starting with "TUPLE" become tuples."""
    if isinstance(x, list):
        if x and x[0] == "TUPLE":
            return tuple(_tuples(y) for y in x[1:])
        return [_tuples(y) for y in x]
    if isinstance(x, dict):
        return dict((k, _tuples(y)) for k, y in x.items())
    return x


def _mkctx(v):
    c = _tuples(copy.deepcopy(v["c"]))
    if v.get("cc"):
        import lena.context
        c = lena.context.Context(c)
    return c


# ------------------------------------------------------------------ accumulators of part (b)
def build_acc(er):
    import lena.core
    import lena.flow
    import lena.math
    import lena.structures
    import lena.variables
    k = er[0]
    if k == "count":
        return lena.flow.Count(er[1])
    if k == "sum":
        return lena.math.Sum()
    if k == "dsum":
        return lena.math.DSum()
    if k == "mean":
        if er[1] == "sum":
            return lena.math.Mean(lena.math.Sum(), pass_on_empty=True)
        if er[1] == "dsum":
            return lena.math.Mean(lena.math.DSum(), pass_on_empty=True)
        if er[1] == "split3":
            # a sum sequence that yields several values: all are yielded by Mean.compute,
            # each with its own context
            return lena.math.Mean(lena.core.Split([lena.math.Sum(), lena.math.Sum(),
                                                   lena.flow.Count(), lena.math.Sum()]),
                                  pass_on_empty=True)
        if er[1] == "storeflat":
            return lena.math.Mean(lena.flow.StoreFilled(yield_as_a_group=False),
                                  pass_on_empty=True)
        return lena.math.Mean(pass_on_empty=True)
    if k == "vmc":
        return lena.math.VarianceMeanCount(corrected=bool(er[1]), pass_on_empty=True)
    if k == "storeflat":
        # only as a component of Vectorize: several results per compute()
        return lena.flow.StoreFilled(yield_as_a_group=False)
    if k == "vec":
        return lena.math.Vectorize(build_acc(er[1]), dim=er[2])
    if k == "hist":
        if er[1] == "1d":
            return lena.structures.Histogram([0, 1, 2.5, 4, 6])
        return lena.structures.Histogram([[0, 1, 2.5, 4], [0, 2, 6]])
    if k == "sib":
        var = lena.variables.Variable("x", GETTERS["idg"], type=er[2]) if er[2] else \
            lena.variables.Variable("x", GETTERS["idg"])
        return lena.structures.SplitIntoBins(build_acc(er[1]), var, [0, 2, 4, 8])
    if k == "graph":
        return lena.structures.Graph(sort=bool(er[1]))
    if k == "fr":
        return lena.core.FillRequest(build_acc(er[1]), bufsize=er[2], reset=bool(er[3]),
                                     buffer_input=True)
    if k == "zip":
        return lena.flow.Zip([build_acc(e) for e in er[1]])
    if k == "splitfc":
        return lena.core.Split([build_acc(e) for e in er[1]])
    raise AssertionError(er)


def acc_label(er):
    """Element class named in the mech (the full recipe is in the message)."""
    k = er[0]
    if k == "fr":
        # request() of the adapter yields what the inner accumulator yields
        return acc_label(er[1])
    if k == "mean":
        return "Mean" if not er[1] else "Mean(%s)" % er[1]
    return {"count": "Count", "sum": "Sum", "dsum": "DSum", "vmc": "VarianceMeanCount",
            "hist": "Histogram", "graph": "Graph", "zip": "Zip", "splitfc": "Split",
            "vec": "Vectorize", "sib": "SplitIntoBins"}[k]


def acc_domain(er):
    k = er[0]
    if k in ("count", "sum", "dsum", "mean", "vmc", "sib"):
        return "scalar"
    if k == "vec":
        return ("vec", er[2])
    if k == "hist":
        return "scalar" if er[1] == "1d" else ("vec", 2)
    if k == "graph":
        return "point"
    if k == "fr":
        return acc_domain(er[1])
    if k in ("zip", "splitfc"):
        return "scalar"
    raise AssertionError(er)


SCALAR_ACCS = [["count", "count"], ["count", "n"], ["sum"], ["dsum"], ["mean", None],
               ["mean", "sum"], ["mean", "dsum"], ["vmc", 0], ["vmc", 1], ["hist", "1d"],
               ["mean", "split3"], ["mean", "storeflat"]]


def rand_acc(rng):
    k = rng.choice(["scalar", "scalar", "scalar", "vec", "hist2", "sib", "sib", "graph", "fr",
                    "zip", "splitfc"])
    if k == "scalar":
        return rng.choice(SCALAR_ACCS)
    if k == "vec":
        return ["vec", rng.choice([["sum"], ["dsum"], ["mean", None], ["count", "count"],
                                   ["storeflat"], ["storeflat"]]),
                rng.randint(1, 3)]
    if k == "hist2":
        return ["hist", "2d"]
    if k == "sib":
        # (an analysis that yields several values per cell gives several histograms per
        # compute(): each one carries its own context)
        return ["sib", rng.choice([["sum"], ["count", "count"], ["mean", None], ["hist", "1d"],
                                   ["vmc", 0], ["splitfc", [["sum"], ["mean", None]]],
                                   ["splitfc", [["sum"], ["count", "n"], ["dsum"]]]]),
                rng.choice(["", "coord"])]
    if k == "graph":
        return ["graph", rng.random() < 0.5]
    if k == "fr":
        inner = rng.choice(SCALAR_ACCS)
        return ["fr", inner, rng.randint(1, 2), rng.random() < 0.5]
    clean = [["sum"], ["count", "count"], ["count", "n"], ["mean", None], ["dsum"]]
    return [k, [rng.choice(clean) for _ in range(rng.randint(1, 3))]]


def rand_acc_values(rng, er, n):
    dom = acc_domain(er)
    out = []
    ctxcls = rng.random() < 0.2
    for i in range(n):
        if dom == "scalar":
            d = rng.choice([rng.randint(-1, 9), round(rng.uniform(-1, 9), 2)])
        elif dom == "point":
            d = ["T", rng.randint(-5, 5), rng.randint(-5, 5)]
        else:
            d = ["T"] + [rng.randint(-1, 7) for _ in range(dom[1])]
        c = None if rng.random() < 0.2 else rand_tree_ctx(rng, i)
        if c is not None:
            if rng.random() < 0.5:
                c.pop("variable", None)
            c.pop("output", None)
        out.append({"d": d, "c": c})
        if c is not None and ctxcls:
            out[-1]["cc"] = 1
    return out


def mkaccval(vr):
    d = vr["d"]
    if isinstance(d, list) and d and d[0] == "T":
        d = tuple(d[1:])
    if vr["c"] is None:
        return d
    return (d, _mkctx(vr))


# ------------------------------------------------------------------ cases
UNCOPYABLE_ACCS = ["Histogram", "Sum", "Mean", "Count", "StoreFilled", "Vectorize"]


def cases(tier, seed):
    na, nb = NCASES[tier]
    for acc in UNCOPYABLE_ACCS:
        for nfill in (1, 2):
            yield {"k": "uncopyable", "acc": acc, "n": nfill}
    for c in corner_cases():
        yield c
    # beyond the small sizes: blocks of 17..200 values, the first tens of them plain numbers,
    # and 5..9 branches
    for i in range(NBIG[tier]):
        rng = gen.rng_for(seed, "C04", "big", i)
        kind = rng.choice(["split-run", "split-run", "split-fill"])
        nbr = rng.choice([2, 3, 3, 5, 9])
        types = [rng.choice(["seq", "seq", "fc", "fc"]) for _ in range(nbr)] \
            if kind == "split-run" else ["fc"] * nbr
        n = rng.choice([17, 33, 65, 66, 100, 130, 200, rng.randint(17, 200)])
        flow = rand_split_flow(rng, n, bare_first=rng.choice([0, 16, 32, 64, 65, 128, n - 2]))
        yield {"k": kind, "branches": [rand_branch(rng, t, stops=False) for t in types],
               "flow": flow, "bufsize": rng.choice([n, n + 1, 1000, None, 64, 65, 70, 128]),
               "big": 1}
    for i in range(max(na, nb)):
        if i < na:
            rng = gen.rng_for(seed, "C04", "a", i)
            kind = rng.choice(["split-run", "split-run", "split-run", "split-fill",
                               "split-fill", "split-request", "split-request", "zip-fill",
                               "zip-fill", "zip-request", "zip-request", "zip-requests"])
            nbr = rng.choice([1, 2, 2, 2, 3, 3, 4])
            if kind == "split-run":
                types = [rng.choice(["seq", "seq", "seq", "fc", "fc", "fr", "fr", "src"])
                         for _ in range(nbr)]
            elif kind in ("split-fill", "zip-fill"):
                types = ["fc"] * nbr
            else:
                types = ["fr"] * nbr
            branches = [rand_branch(rng, t, stops=(kind == "split-run")) for t in types]
            if kind == "zip-requests":
                # repeated requests of a Zip: judged without any mutator (see run_split)
                branches = strip_mutators(branches)
            flow = rand_split_flow(rng)
            # bufsize None with a fill-request branch is rejected by FillRequestSeq
            rec = {"k": kind, "branches": branches, "flow": flow,
                   "bufsize": rng.choice([1, 1, 2, 2, 3, 4, 1000] +
                                         ([] if "fr" in types else [None]))}
            if kind == "zip-request":
                # one request after all fills: Zip stops at the shortest branch and leaves
                # the other generators suspended, so a second request would not compare
                # like with like (that is the separate kind "zip-requests")
                rec["sched"] = ["f"] * len(flow) + ["q"]
            elif kind in ("split-request", "zip-requests"):
                sched, nfl = [], 0
                while nfl < len(flow):
                    if rng.random() < 0.35:
                        sched.append("q")
                    sched.append("f")
                    nfl += 1
                sched.append("q")
                if rng.random() < 0.3:
                    sched.append("q")
                rec["sched"] = sched
            yield rec
        if i < nb:
            rng = gen.rng_for(seed, "C04", "b", i)
            er = rand_acc(rng)
            nf = rng.choice([0, 1, 2, 3, 3, 4, 5, 6])
            vals = rand_acc_values(rng, er, nf)
            ops = [["f", v] for v in vals]
            for _ in range(rng.randint(0, 2)):
                ops.insert(rng.randint(0, len(ops)), ["c"])
            ops.append(["c"])
            if rng.random() < 0.6:
                ops.append(["c"])
            yield {"k": "acc", "el": er, "ops": ops}


def corner_cases():
    """Enumerated table: every accumulator kind once with a fixed history."""
    accs = list(SCALAR_ACCS) + [["hist", "2d"], ["vec", ["sum"], 2], ["vec", ["storeflat"], 2],
                                ["sib", ["sum"], "coord"],
                                ["sib", ["hist", "1d"], ""],
                                ["sib", ["splitfc", [["sum"], ["mean", None]]], "coord"],
                                ["graph", 1], ["graph", 0],
                                ["fr", ["sum"], 1, 0], ["fr", ["hist", "1d"], 1, 0],
                                ["zip", [["sum"], ["count", "count"]]],
                                ["splitfc", [["sum"], ["mean", None]]]]
    for er in accs:
        dom = acc_domain(er)

        def d(x):
            if dom == "scalar":
                return x
            if dom == "point":
                return ["T", x, x + 1]
            return ["T"] + [x] * dom[1]
        yield {"k": "acc", "el": er, "ops": [
            ["f", {"d": d(1), "c": {"i": 0, "n": {"k": 1}, "l": [0, {"z": 0}]}}], ["c"],
            ["f", {"d": d(3), "c": {"i": 1, "n": {"k": 2, "d": {"z": [1]}}}}], ["c"], ["c"]]}
    two = [{"type": "seq", "pre": [["cset", "a"], ["cdeep"]], "post": []},
           {"type": "seq", "pre": [["dapp"], ["cset", "b"]], "post": []}]
    flow = [{"d": [1], "c": {"i": 0, "n": {"k": 0}}}, {"d": [2], "c": {"i": 1}}]
    for bs in (1, 2, 1000, None):
        yield {"k": "split-run", "branches": two + [two[0]], "flow": flow, "bufsize": bs}
    srcb = {"type": "src", "pre": [], "post": [], "vals": [50, 51]}
    for perm in ([srcb, two[0], two[1]], [two[0], srcb, two[1]], [two[0], two[1], srcb],
                 [srcb, two[0], srcb, two[1], two[0]]):
        for bs in (1, 1000):
            yield {"k": "split-run", "branches": perm, "flow": flow, "bufsize": bs}
    stopper = {"type": "fc", "pre": [["cset", "a"], ["cdeep"], ["slice", 1]], "post": [],
               "acc": ["store", 1]}
    reader = {"type": "fc", "pre": [], "post": [], "acc": ["store", 1]}
    for bs in (2, 1000):
        yield {"k": "split-run", "branches": [stopper, reader, two[1]], "flow": flow,
               "bufsize": bs}
        yield {"k": "split-run", "branches": [dict(stopper, type="fr", fr=[1, 0]), reader],
               "flow": flow, "bufsize": bs}
    fcs = [{"type": "fc", "pre": [["cset", "a"], ["dinc"]], "post": [], "acc": ["store", 1]},
           {"type": "fc", "pre": [["cdeep"]], "post": [["cset", "b"]], "acc": ["store", 1]},
           {"type": "fc", "pre": [["dapp"]], "post": [], "acc": ["sum"]}]
    yield {"k": "split-fill", "branches": fcs, "flow": flow, "bufsize": 1000}
    yield {"k": "zip-fill", "branches": fcs, "flow": flow, "bufsize": 1000}
    frs = [dict(b, type="fr", fr=[1, 0]) for b in fcs]
    yield {"k": "split-request", "branches": frs, "flow": flow, "bufsize": 1000,
           "sched": ["f", "q", "f", "q"]}
    yield {"k": "zip-request", "branches": frs, "flow": flow, "bufsize": 1000,
           "sched": ["f", "f", "q"]}
    yield {"k": "zip-requests", "branches": strip_mutators(frs), "flow": flow, "bufsize": 1000,
           "sched": ["f", "q", "f", "q"]}


# ------------------------------------------------------------------ snapshots
def snap(v):
    import lena.structures
    if isinstance(v, tuple):
        return ["T:" + type(v).__name__] + [snap(x) for x in v]
    if isinstance(v, list):
        return ["L"] + [snap(x) for x in v]
    if isinstance(v, dict):
        return {str(k): snap(x) for k, x in sorted(v.items(), key=lambda kv: str(kv[0]))}
    if isinstance(v, (Energy, Label)):
        return [type(v).__name__, repr(float(v)) if isinstance(v, Energy) else str(v),
                snap(v.tags)]
    if isinstance(v, bool) or v is None or isinstance(v, (int, str)):
        return v
    if isinstance(v, float):
        return ["F", repr(v)]
    if isinstance(v, decimal.Decimal):
        return ["Dec", str(Fraction(v)) if v.is_finite() else str(v)]
    if isinstance(v, lena.structures.histogram):
        return ["histogram", snap(v.edges), snap(v.bins), snap(v.n_out_of_range)]
    if isinstance(v, lena.structures.Graph):
        return ["Graph", snap(list(v._points)), snap(v._scale)]
    return ["R", type(v).__name__]


# ------------------------------------------------------------------ part (a)
def _collect(stream, at_yield, keep):
    for out in stream:
        at_yield.append(snap(out))
        keep.append(out)


def drive(kind, made, flow, sched):
    """Drive a Split/Zip; returns (snapshots at yield, snapshots at end, error)."""
    at_yield, keep = [], []
    try:
        if kind == "split-run":
            _collect(made.run(iter(flow)), at_yield, keep)
        elif kind in ("split-fill", "zip-fill"):
            for v in flow:
                made.fill(v)
            _collect(made.compute(), at_yield, keep)
        else:
            it = iter(flow)
            for op in sched:
                if op == "f":
                    made.fill(next(it))
                else:
                    at_yield.append("request")
                    keep.append("request")
                    _collect(made.request(), at_yield, keep)
    except Exception as e:  # pylint: disable=broad-except
        return at_yield, [snap(o) for o in keep], e
    return at_yield, [snap(o) for o in keep], None


def make_split(kind, branches, idxs, bufsize):
    made = _make_split(kind, branches, idxs, bufsize)
    if any(m[0] in ("sset", "ucfs") for j in idxs
           for m in branches[j].get("pre", []) + branches[j].get("post", [])) \
            and hasattr(made, "_set_context"):
        # what an enclosing sequence with SetContext("outer.o", 1), SetContext("z", [1]) does
        made._set_context({"outer": {"o": 1}, "z": [1]})
    return made


def _make_split(kind, branches, idxs, bufsize):
    import lena.core
    import lena.flow
    if kind == "zip-requests":
        kind = "zip-request"
    _new_shared()
    if kind.startswith("split"):
        seqs = []
        for j in idxs:
            if branches[j]["type"] == "src":
                # a Source branch: never reads the buffer, yields its own flow once
                seqs.append(lena.core.Source(list(branches[j]["vals"]), gen.Tag("b%d" % j)))
            else:
                seqs.append(tuple(branch_elements(branches[j], "b%d" % j)))
        return lena.core.Split(seqs, bufsize=bufsize)
    seqs = []
    for j in idxs:
        els = branch_elements(branches[j], "b%d" % j, pack=True)
        if kind == "zip-fill":
            seqs.append(lena.core.FillComputeSeq(*els))
        else:
            seqs.append(lena.core.FillRequestSeq(*els, bufsize=1, reset=False,
                                                 buffer_input=True))
    return lena.flow.Zip(seqs)


def per_branch(kind, snaps, nbr, j, solo):
    """Outputs attributed to branch j from a list of snapshots."""
    out = []
    for s in snaps:
        if s == "request":
            out.append(s)
            continue
        if kind.startswith("split"):
            # s = ["T:tuple", tag, value]
            if isinstance(s, list) and len(s) == 3 and s[1] == "b%d" % j:
                out.append(s[2])
        else:
            # s = ["T:tuple", comp0, comp1, ...]
            comps = s[1:] if isinstance(s, list) and s and s[0] == "T:tuple" else None
            if comps is None or len(comps) != (1 if solo else nbr):
                out.append(["unexpected-shape", s])
            else:
                out.append(comps[0 if solo else j])
    return out


def compare_program(kind, branches, bufsize, flow_r, sched):
    """Run the full program and every branch alone; list of differences
    (branch index, phase, got, expected) or ("raises", ...)."""
    nbr = len(branches)
    made = make_split(kind, branches, list(range(nbr)), bufsize)
    full_y, full_e, err = drive(kind, made, mkflow(flow_r), sched)
    diffs, ncmp = [], 0
    for j in range(nbr):
        solo = make_split(kind, branches, [j], bufsize)
        solo_y, solo_e, serr = drive(kind, solo, mkflow(flow_r), sched)
        if err is not None or serr is not None:
            # an exception is part of what a branch computes: it must be the same alone.
            if serr is not None and err is not None and type(err) is type(serr):
                break            # the branches after the failing one are not driven
            if serr is None and err is not None and j < nbr - 1:
                continue         # some later branch raises
            diffs.append((j, "raises-only-" + ("in-program" if serr is None else "alone") +
                          ":" + type(err or serr).__name__, repr(err), repr(serr)))
            break
        phases = [("", full_y, solo_y)]
        if kind.startswith("split"):
            # Zip stops at its shortest branch and leaves the other generators suspended, so
            # what happens to a value *after* it was yielded depends on how far the other
            # branches let the generator advance: only Split is judged after the run
            phases.append((":after-yield", full_e, solo_e))
        for phase, full, alone in phases:
            got = per_branch(kind, full, nbr, j, False)
            exp = per_branch(kind, alone, nbr, j, True)
            if kind.startswith("zip"):
                # Zip stops at the shortest branch: compare the common prefix per request
                got, exp = zip_prefix(got, exp)
            ncmp += max(1, len(exp))
            if got != exp:
                diffs.append((j, phase, got, exp))
                break
    return diffs, ncmp


def strip_mutators(branches):
    return [dict(b, pre=[], post=[]) for b in branches]


def run_split(r, obs):
    kind, branches, bufsize = r["k"], r["branches"], r["bufsize"]
    sched = r.get("sched")
    nbr = len(branches)
    nmut = sum(len(b["pre"]) + len(b["post"]) for b in branches)
    if nbr >= 2 and r["flow"] and nmut:
        obs.nontrivial = True
    try:
        make_split(kind, branches, list(range(nbr)), bufsize)
    except Exception as e:  # pylint: disable=broad-except
        obs.fail("construction-raises:%s:%s" % (kind, type(e).__name__),
                 "building %s from %r raised %r" % (kind, branches, e))
        return
    diffs, ncmp = compare_program(kind, branches, bufsize, r["flow"], sched)
    obs.count("programs_driven")
    obs.count("solo_runs", nbr)
    obs.count("branch_outputs_compared", ncmp)
    obs.check(not diffs, "", "")
    if not diffs:
        return
    # classifier: does the branch differ from its solo run even when no element mutates
    # anything?  Then it is not a leak of a mutation but the container's own scheduling.
    obs.violations.pop()
    plain, _ = compare_program(kind, strip_mutators(branches), bufsize, r["flow"], sched)
    obs.count("classifier_reruns")
    j, phase, got, exp = diffs[0]
    cont, mode = kind.split("-")
    if phase.startswith("raises"):
        mech = "%s-branch-%s:%s" % (cont, phase, mode)
    else:
        mech = "%s-branch-differs-from-solo:%s%s" % (cont, mode, phase)
    if kind == "zip-requests":
        mech = "zip-branch-differs-from-solo:repeated-requests:no-mutators"
    elif plain:
        mech += ":even-without-mutators"
    obs.fail(mech,
             "%s bufsize=%r branch %d of %d (%r): in the full program it yields %r, alone on a "
             "private copy of the flow %r (flow %r, schedule %r)%s"
             % (kind, bufsize, j, nbr, branches[j], got, exp, r["flow"], sched,
                "; the same program with all mutators removed also differs: %r" % (plain[0],)
                if plain else ""))


def zip_prefix(got, exp):
    """Cut both lists, per request segment, to the length of the shorter segment."""
    def segs(xs):
        out, cur = [], []
        for x in xs:
            if x == "request":
                out.append(cur)
                cur = []
            else:
                cur.append(x)
        out.append(cur)
        return out
    g, e = segs(got), segs(exp)
    if len(g) != len(e):
        return got, exp
    ng, ne = [], []
    for a, b in zip(g, e):
        n = min(len(a), len(b))
        ng.append(a[:n])
        ne.append(b[:n])
    return ng, ne


# ------------------------------------------------------------------ part (b)
SENT = "POISON"


def poison(ctx):
    """Mutate *ctx* in place at every level (every dict and list reachable)."""
    n = 0
    for o in list(identity.mutable_ids(ctx).values()):
        if isinstance(o, dict):
            for k in list(o):
                if not isinstance(o[k], (dict, list)):
                    o[k] = SENT
            o["__poison__"] = SENT
            n += 1
        elif isinstance(o, list):
            for i, x in enumerate(o):
                if not isinstance(x, (dict, list)):
                    o[i] = SENT
            o.append(SENT)
            n += 1
    return n


def results_method(el):
    req = getattr(el, "request", None)
    if callable(req) and not callable(getattr(el, "compute", None)):
        return req
    return el.compute


def _ctx_snap(o):
    """What a streaming consumer can hold on to: the context of a result as it arrives (the
    data may be a live object of the element, e.g. the histogram it goes on filling)."""
    return ["ctx", snap(o[1])] if gen.has_ctx(o) else ["bare"]


def run_acc(r, obs):
    er, ops = r["el"], r["ops"]
    lab = acc_label(er)
    real, twin = build_acc(er), build_acc(er)
    filled = []          # real filled values
    earlier = []         # (context object, snapshot after its own poisoning)
    seen_ctx_fill = False
    mutated_before = False
    for oi, op in enumerate(ops):
        if op[0] == "f":
            v = mkaccval(op[1])
            filled.append(v)
            real.fill(v)
            twin.fill(mkaccval(op[1]))
            obs.count("fills")
            if gen.has_ctx(v) and v[1]:
                seen_ctx_fill = True
            continue
        # every second compute is read by a streaming consumer that changes each received
        # context in place before it asks for the next result (what a following MakeFilename or
        # UpdateContext does); the snapshots taken at arrival are what is judged
        stream_mode = bool(oi % 2)
        arrival = None
        try:
            if stream_mode:
                outs, arrival = [], []
                for o in results_method(real)():
                    arrival.append(_ctx_snap(o))
                    outs.append(o)
                    if gen.has_ctx(o):
                        poison(o[1])
                        obs.count("contexts_mutated")
            else:
                outs = list(results_method(real)())
            err = None
        except Exception as e:  # pylint: disable=broad-except
            outs, err = [], e
        try:
            touts = list(results_method(twin)())
            terr = None
        except Exception as e:  # pylint: disable=broad-except
            touts, terr = [], e
        obs.count("computes")
        if seen_ctx_fill:
            obs.nontrivial = True
        where = "compute/request no. %d (op %d of %r, element %r)" % (
            sum(1 for o in ops[:oi + 1] if o[0] == "c"), oi, ops, er)
        later_diff = ""
        if mutated_before:
            # later compute unchanged by the earlier mutation of results (twin not molested)
            obs.count("later_computes_compared")
            if arrival is not None:
                same = arrival == [_ctx_snap(o) for o in touts] and type(err) is type(terr)
            else:
                same = ([snap(o) for o in outs] == [snap(o) for o in touts]
                        and type(err) is type(terr))
            if not same:
                later_diff = ("after the contexts yielded earlier were mutated in place, %s "
                              "gives %r / %r; an element with the same history whose results "
                              "were left alone gives %r / %r"
                              % (where, [snap(o) for o in outs], err,
                                 [snap(o) for o in touts], terr))
        if err is not None and later_diff:
            obs.check(False, "mutating-result-changes-later-compute:" + lab,
                      "%s: %s" % (lab, later_diff))
            return
        if err is not None:
            if terr is None or type(terr) is not type(err):
                obs.fail("compute-raises:%s:%s" % (lab, type(err).__name__),
                         "%s: %s raised %r" % (lab, where, err))
            return
        if arrival is not None and terr is None and not mutated_before:
            obs.count("later_computes_compared")
            if not obs.check(arrival == [_ctx_snap(o) for o in touts],
                             "result-changed-by-the-consumer-of-an-earlier-result:" + lab,
                             "%s: %s read by a consumer that changes every received context in "
                             "place before asking for the next result gives %r at arrival; an "
                             "element with the same history whose results were left alone gives %r"
                             % (lab, where, arrival, [_ctx_snap(o) for o in touts])):
                return
        ctxs = [o[1] for o in outs if gen.has_ctx(o)]
        # (1) identity-graph disjointness
        fids, eids = {}, {}
        for v in filled:
            if gen.has_ctx(v):
                identity.mutable_ids(v[1], into=fids)
        for e in earlier:
            identity.mutable_ids(e[0], into=eids)
        sh_filled, sh_earlier = [], []
        for ci, c in enumerate(ctxs):
            cids = identity.mutable_ids(c)
            obs.count("identity_graphs_walked")
            sh_filled += [cids[i] for i in cids if i in fids]
            sh_earlier += [cids[i] for i in cids if i in eids]
            for cj in range(ci):
                sh_earlier += identity.shared(c, ctxs[cj])
        ex_filled, ex_earlier = repr(sh_filled[:1]), repr(sh_earlier[:1])
        # (2) destructive follow-up
        before = [snap(v) for v in filled]
        nm = 0
        for c in ctxs:
            nm += poison(c)
        obs.count("contexts_mutated", nm)
        if nm:
            mutated_before = True
        after = [snap(v) for v in filled]
        changed_earlier = [(s0, snap(c0)) for c0, s0 in earlier if snap(c0) != s0]
        conseq = ("; " + later_diff) if later_diff else ""
        if before != after:
            conseq += "; mutating the yielded context in place changed the filled values " \
                      "from %r to %r" % (before, after)
        if changed_earlier:
            conseq += "; mutating it changed a context yielded earlier: %r -> %r" \
                      % changed_earlier[0]
        # one violation per history: the identity oracle first, its consequences in the text
        if not obs.check(not sh_filled, "result-context-aliases-filled-context:" + lab,
                         "%s: the context yielded by %s shares %d mutable object(s) with the "
                         "contexts of the filled values, e.g. %s%s"
                         % (lab, where, len(sh_filled), ex_filled, conseq)):
            return
        if not obs.check(not sh_earlier, "result-context-aliases-earlier-result:" + lab,
                         "%s: the context yielded by %s shares %d mutable object(s) with a "
                         "context yielded earlier, e.g. %s%s"
                         % (lab, where, len(sh_earlier), ex_earlier, conseq)):
            return
        if not obs.check(not later_diff, "mutating-result-changes-later-compute:" + lab,
                         "%s: %s" % (lab, later_diff)):
            return
        if not obs.check(before == after, "mutating-result-changes-filled-value:" + lab,
                         "%s: %s%s" % (lab, where, conseq)):
            return
        if not obs.check(not changed_earlier, "mutating-result-changes-earlier-result:" + lab,
                         "%s: %s%s" % (lab, where, conseq)):
            return
        for c in ctxs:
            earlier.append((c, snap(c)))


class _NoCopy(object):
    """An object a reading element may leave in a context (a lock, an open file): it refuses
    to be deep-copied."""

    def __deepcopy__(self, memo):
        raise TypeError("cannot copy a %s object" % type(self).__name__)

    __reduce_ex__ = None


def run_uncopyable(r, obs):
    """The context of a filled value holds an object that cannot be deep-copied beside ordinary
    nested items: compute() may refuse, but what it yields shares no dictionary or list with
    the filled value."""
    import lena.flow
    import lena.math
    import lena.structures
    from rv.monitors import identity
    name = r["acc"]
    if name == "Histogram":
        el = lena.structures.Histogram([0, 1, 2, 3])
    elif name == "Sum":
        el = lena.math.Sum()
    elif name == "Mean":
        el = lena.math.Mean()
    elif name == "Count":
        el = lena.flow.Count()
    elif name == "StoreFilled":
        el = lena.flow.StoreFilled() if hasattr(lena.flow, "StoreFilled") else None
    elif name == "Vectorize":
        el = lena.math.Vectorize(lena.math.Sum(), dim=2) if hasattr(lena.math, "Vectorize") \
            else None
    else:
        el = None
    if el is None or not hasattr(el, "fill"):
        return
    obs.nontrivial = True
    filled = []
    for i in range(r["n"]):
        ctx = {"io": _NoCopy(), "n": {"k": [1, i]}, "tags": ["t"]}
        data = (1.5, 0.5) if name == "Vectorize" else 1.5
        filled.append((data, ctx))
        try:
            el.fill((data, ctx))
        except TypeError:
            obs.count("uncopyable_context_refused")
            return
    try:
        results = list(el.compute())
    except TypeError:
        obs.count("uncopyable_context_refused")
        return
    obs.count("uncopyable_context_results", len(results))
    for res in results:
        rctx = res[1] if isinstance(res, tuple) and len(res) == 2 and isinstance(res[1], dict) \
            else None
        if rctx is None:
            continue
        for data, ctx in filled:
            common = [o for o in identity.shared(rctx, ctx) if not isinstance(o, _NoCopy)]
            obs.check(not common, "result-shares-object-with-filled-value:uncopyable-context",
                      "%s filled with a value whose context holds an object that cannot be "
                      "deep-copied: compute() yielded a context sharing %r with the filled "
                      "value" % (name, common[:1]))


def run_case(r, obs):
    k = r["k"]
    try:
        if k == "uncopyable":
            run_uncopyable(r, obs)
        elif k == "acc":
            run_acc(r, obs)
        else:
            run_split(r, obs)
    finally:
        kept = []
        for v in obs.violations:
            _reported[v["mech"]] = _reported.get(v["mech"], 0) + 1
            if _reported[v["mech"]] <= MAX_PER_MECH:
                kept.append(v)
            else:
                obs.count("violations_beyond_the_first_%d_per_mechanism_and_worker"
                          % MAX_PER_MECH)
        obs.violations[:] = kept


_reported = {}     # mech -> violations already recorded by this worker process
MAX_PER_MECH = 4   # the worker keeps at most 200 violations: one mechanism must not fill it


RULE += (' Run-driven Splits also contain Source branches and fill branches that stop (Slice through fill_into) after mutating their block; a fifth of the flows carry contexts of class lena.context.Context; part (b) includes Vectorize over multi-result components and Mean over sum sequences that yield several values.')
RULE += (' Branches of one program also share one typed Variable object (as an element and as the '
         'argument variable of a SplitIntoBins accumulator in a fill/compute branch).')
RULE += (' Data are also instances of subclasses of float / str that carry a mutable attribute '
         '(changed in place by the data mutators).')
RULE += (' Branches also hold SetContext and UpdateContextFromStatic elements, and the Split then '
         'receives a static context from outside: what a branch sets is seen by that branch only.')
RULE += (' Added: accumulators filled with values whose context holds an object that refuses '
         'deep copy beside nested items: compute() may fail, its results share nothing with the '
         'filled value.')

RULE += (' Round 10: contexts holding tuples of dictionaries (context.zip / context.combine); blocks of 17..200 values that start with 16..128 plain numbers, 2..9 branches.')
