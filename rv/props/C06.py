"""C06 - histogram fill puts every value into exactly the right cell, conserves weight.

Deciding monitors: live contracts (rv/props/_c06_monitor.py) attached to the real
get_bin_on_value_1d / get_bin_on_value / histogram.fill at every binding site, with a
per-object shadow conservation state; plus an end-to-end reference model (linear scan,
the same additions in the same order) kept beside every histogram by the workload.
"""
import bisect
import itertools
import math
import os
import random

from rv import gen
from rv.props import _c06_monitor as mon

ID = "C06"
REPO_TESTS = "C06"   # the repository's tests also run under this property's monitors
LEVEL = "exploration"
RULE = ("seeded random edge arrays (1-3 dimensions, 2..12 edges per axis; classes: uniform "
        "ints, uniform floats, geometric 1e-9..1e9, signed geometric, clustered with "
        "adjacent floats, random non-uniform, tiny 1e-310/1e-300, huge 1e300, mixed "
        "int/float, big ints) x coordinates (every edge, its float neighbours up and down, "
        "int neighbours, midpoints, far outside, +-inf, random inside/outside; full product "
        "of the per-axis lists for 1-d and small 2-d, sampled otherwise) x weights (none, "
        "ints incl. 0 and negative, dyadic floats, arbitrary floats, mixed) filled into the "
        "histogram structure (zero / 0.0 / given initial bins, "
        "list or tuple coordinates) and into the Histogram element (bare data and "
        "(data, context) values); plus a table of non-increasing / too short edges. "
        "Non-trivial: at least 5 fills of which one lands in a cell and one outside "
        "(or a rejection case)")
ASSUMPTIONS = ["edges and coordinates are ints/floats without NaN; spans do not overflow",
               "weights are finite with |w| <= 1e12 so that sums never overflow",
               "list edges (tuple edges are outside the documented format)"]
ANCHORS = [("lena/structures/hist_functions.py", 71, 102),
           ("lena/structures/hist_functions.py", 159, 279),
           ("lena/structures/histogram.py", 232, 263),
           ("lena/structures/histogram.py", 434, 447)]
MUST_REACH = ["lena/structures/hist_functions.py:get_bin_on_value_1d",
              "lena/structures/hist_functions.py:get_bin_on_value",
              "lena/structures/hist_functions.py:check_edges_increasing",
              "lena/structures/hist_functions.py:_check_edges_increasing_1d",
              "lena/structures/histogram.py:histogram.fill",
              "lena/structures/histogram.py:Histogram.fill",
              "lena/structures/histogram.py:Histogram.compute"]
MUST_COUNT = ["contract_evals_1d", "contract_evals_nd", "contract_evals_fill",
              "contract_conservation_checks", "reference_model_cells_compared",
              "branch_ind_min_eq_guess_reached", "branch_ind_max_eq_guess_reached"]
MIN_NONTRIVIAL = {"quick": 1000, "thorough": 20000}
NCASES = {"quick": 2000, "thorough": 40000}
NHIST = {"quick": 500, "thorough": 15000}
LEVEL_TEXT = ("Seeded random exploration: every call of the real get_bin_on_value_1d, "
              "get_bin_on_value and histogram.fill made by the workload is evaluated by a live "
              "contract (index = number of edges not greater than the value, minus one; exactly "
              "the linear-scan cell changes by exactly the weight, else n_out_of_range does; "
              "exact rational conservation per object), and the final contents are compared "
              "with a reference model. Held on the K evaluations reported in the evidence; "
              "silent about NaN, non-numeric coordinates and overflowing spans.")
LEVEL_NOTE = ("Trusts Python comparisons, Fraction arithmetic and the linear scan of the "
              "monitor; both rounding branches of the interpolation search are required to "
              "have been executed (line coverage), a step budget turns a non-terminating "
              "search into a witness.")
TECHNIQUE = "live contracts with snapshots + shadow state on real functions, reference-model monitor"

INF = float("inf")


# ------------------------------------------------------------------ generators
def _nx(x, up):
    return math.nextafter(float(x), INF if up else -INF)


def rand_axis(rng, maxedges=12):
    """One strictly increasing edge list (JSON numbers)."""
    n = rng.randint(2, maxedges)
    kind = rng.choice(["uint", "uint", "ufloat", "ufloat", "geom", "sgeom", "cluster",
                       "cluster", "random", "random", "tiny", "huge", "mixed", "bigint",
                       "skew", "skew"])
    if kind == "uint":
        a = rng.randint(-20, 20)
        step = rng.choice([1, 1, 2, 3, 10, 1000])
        arr = [a + i * step for i in range(n)]
    elif kind == "ufloat":
        a = rng.choice([0.0, -1.0, 0.1, -2.5, 1e3, rng.uniform(-10, 10)])
        h = rng.choice([0.1, 0.25, 1.0, 1 / 3.0, 1e-3, 7.7, rng.uniform(0.01, 5)])
        arr = [a + i * h for i in range(n)]
    elif kind == "geom":
        lo, hi = -9.0, 9.0
        arr = [10 ** (lo + (hi - lo) * i / (n - 1)) for i in range(n)]
    elif kind == "sgeom":
        k = rng.randint(0, n)
        neg = sorted(-10 ** rng.uniform(-9, 9) for _ in range(k))
        pos = sorted(10 ** rng.uniform(-9, 9) for _ in range(n - k))
        arr = neg + ([0.0] if rng.random() < 0.3 else []) + pos
    elif kind == "cluster":
        arr = []
        while len(arr) < n:
            c = rng.choice([0.0, 1.0, -1.0, 1e6, 1e-6, 0.1, rng.uniform(-100, 100)])
            x = c
            for _ in range(rng.randint(1, 4)):
                arr.append(x)
                for _ in range(rng.choice([1, 1, 2, 5])):
                    x = _nx(x, True)
        arr = arr[:n]
    elif kind == "random":
        arr = [rng.uniform(-1, 1) * 10 ** rng.randint(-3, 6) for _ in range(n)]
    elif kind == "tiny":
        sc = rng.choice([5e-324, 1e-310, 1e-300])
        arr = [sc * rng.randint(-1000, 1000) for _ in range(n)]
    elif kind == "huge":
        arr = [rng.uniform(-1, 1) * 1e300 for _ in range(n)]
    elif kind == "mixed":
        arr = [rng.choice([rng.randint(-50, 50), rng.uniform(-50, 50),
                           float(rng.randint(-50, 50))]) for _ in range(n)]
    elif kind == "bigint":
        b = rng.choice([2 ** 53, 10 ** 18, 2 ** 70, -2 ** 60])
        arr = [b + rng.randint(-5, 5) * rng.choice([1, 3, 2 ** 20]) for _ in range(n)]
    else:   # skew: one huge cell beside many small ones -> interpolation guesses an end
        small = [rng.uniform(0, 1) for _ in range(n - 1)]
        far = rng.choice([1e9, 1e12, -1e9, -1e12, 1e3])
        arr = small + [far]
    arr = sorted(set(arr))
    # sorted(set()) on mixed int/float keeps one of equal values; enforce strictness
    out = []
    for x in arr:
        if not out or x > out[-1]:
            out.append(x)
    if len(out) < 2:
        out = [0, 1]
    return out


def special_coords(arr, rng, nrand=4):
    """Per-axis coordinate list: edges, neighbours, midpoints, outside, infinities."""
    xs = []
    for e in arr:
        xs.append(e)
        try:
            xs.append(_nx(e, True))
            xs.append(_nx(e, False))
        except OverflowError:
            pass
        if isinstance(e, int):
            xs.extend([e + 1, e - 1])
    for a, b in zip(arr, arr[1:]):
        m = a + (b - a) / 2 if not (isinstance(a, int) and isinstance(b, int)) else (a + b) // 2
        xs.append(m)
        xs.append(a / 2 + b / 2 if abs(a) < 1e300 and abs(b) < 1e300 else m)
    lo, hi = arr[0], arr[-1]
    try:
        span = float(hi) - float(lo)
    except OverflowError:
        span = 1e300
    if span == INF:
        span = 1e300
    for far in (lo - 10 * span - 1 if abs(lo) < 1e290 and span < 1e290 else -1e308,
                hi + 10 * span + 1 if abs(hi) < 1e290 and span < 1e290 else 1e308,
                -1e308, 1e308, -INF, INF, 0, 0.0, -0.0):
        xs.append(far)
    for _ in range(nrand):
        t = rng.uniform(-0.2, 1.2)
        try:
            xs.append(float(lo) + t * span)
        except OverflowError:
            pass
    return [x for x in xs if x == x]


def cases(tier, seed):
    n = NCASES[tier]
    for i in range(n):
        rng = gen.rng_for(seed, "C06", i)
        dim = rng.choice([1, 1, 1, 2, 2, 3])
        maxe = 12 if dim == 1 else (rng.choice([4, 8, 12]) if dim == 2 else rng.choice([3, 4, 6]))
        axes = [rand_axis(rng, maxe) for _ in range(dim)]
        # 1-d edges are "simply the x-edges list" (documented format); never nested
        form = "flat" if dim == 1 else "nested"
        target = rng.choice(["structure", "structure", "structure", "element"])
        wkind = rng.choice(["none", "ints", "dyadic", "floats", "mixed", "ints", "bigint",
                            "fraction", "decimal"])
        init = rng.choice(["zero", "zero", "zerof", "bins"])
        if wkind in ("decimal", "fraction", "bigint"):
            init = "zero"       # integer zeros: every sum with an exact number type is exact
        yield {"k": "fill", "dim": dim, "edges": axes[0] if form == "flat" else axes,
               "form": form, "target": target,
               "wkind": wkind,
               "init": init,
               # "reused": one list object refilled in place before every fill (a reader that
               # reuses its buffer); the coordinate is what the list holds when fill is called
               "ctype": rng.choice(["list", "list", "tuple", "tuple", "reused"]),
               "ctx": rng.random() < 0.5,
               "nsample": rng.choice([60, 150, 400]) if tier == "quick"
               else rng.choice([150, 400, 1200]),
               "rs": "%s/C06/%d/fills" % (seed, i)}
    # long and strongly non-uniform meshes (the property's 2..12 edges are the exhaustive part;
    # the statement holds for any strictly increasing edges): values on every edge, beside it
    # and between edges
    for name in ("range40+1e6", "pow2_0..40", "decades-30..30", "1e6+range40", "squares60"):
        yield {"k": "longmesh", "mesh": name}
    # longer meshes still: 65..400 edges, widths over many orders of magnitude
    for name in ("pow2_0..130", "pow2_0..300", "range200+1e9", "decades-150..150", "squares400",
                 "1e9+range130", "halves300"):
        yield {"k": "longmesh", "mesh": name}
    # histories of one histogram: fills interleaved with the operations that replace or rescale
    # its bins (scale, set_nevents), and with copies (copy.deepcopy, pickle - what Cache and the
    # elements that copy their sequences do) that are then filled on beside the original
    for i in range(NHIST[tier]):
        rng = gen.rng_for(seed, "C06hist", i)
        dim = rng.choice([1, 1, 2, 3])
        axes = [rand_axis(rng, 8 if dim == 1 else 4) for _ in range(dim)]
        yield {"k": "history", "dim": dim, "edges": axes[0] if dim == 1 else axes,
               "form": "flat" if dim == 1 else "nested", "rs": "%s/C06/hist/%d" % (seed, i),
               "nsample": 40, "ctype": "list", "target": rng.choice(["structure", "element"])}
    bad = [[], [0], [1.5], [0, 0], [1, 0], [0, 1, 1], [0, 2, 1], [0.0, 1.0, 1.0], [3, 2, 1],
           [0, 1, 2, 3, 3], [0, 1, 5, 4, 6], [[0, 1], [1]], [[0, 1], [2, 2]], [[0, 1], [3, 2]],
           [[1, 0], [0, 1]], [[0, 1], [0, 1], [5, 5]], [[0, 1], []], [[]],
           [[0, 1, 2], [0, 1, 0.5]], [[0.0, 1.0], [1.0, 1.0, 2.0]]]
    for e in bad:
        for target in ["check", "histogram", "Histogram"]:
            yield {"k": "bad_edges", "edges": e, "target": target}
    # documented: coordinate and edges of different length -> LenaValueError
    for e, c in [([[0, 1, 2], [0, 1]], [0.5]), ([[0, 1, 2], [0, 1]], [0.5, 0.5, 0.5]),
                 ([[0, 1], [0, 1], [0, 2]], (0.5, 0.5)), ([0, 1, 2], [0.5, 0.5]),
                 ([[0, 1], [0, 1]], [])]:
        yield {"k": "dim_mismatch", "edges": e, "coord": list(c)}


# ------------------------------------------------------------------ worker side
def setup_worker(tier):
    mon.attach()


def _weights(kind, rng, n):
    out = []
    for _ in range(n):
        k = kind if kind != "mixed" else rng.choice(["none", "ints", "dyadic", "floats"])
        if k == "none":
            out.append(None)
        elif k == "ints":
            out.append(rng.choice([1, 1, 2, 3, 0, -1, -4, 7, 50, rng.randint(-5, 50)]))
        elif k == "dyadic":
            out.append(rng.randint(-2 ** 20, 2 ** 20) / float(2 ** rng.randint(0, 10)))
        elif k == "bigint":
            # exact in Python, not representable as floats
            out.append(rng.choice([2 ** 53 + 1, 2 ** 60 + 7, -(2 ** 55) - 3, 1, 3, 10 ** 20 + 1]))
        elif k == "fraction":
            from fractions import Fraction
            out.append(Fraction(rng.randint(-9, 9), rng.choice([1, 3, 7, 10])))
        elif k == "decimal":
            import decimal
            out.append(decimal.Decimal(rng.choice(["0.1", "0.2", "1.25", "-3", "7.001", "1E+2"])))
        else:
            out.append(rng.uniform(-1, 1) * 10 ** rng.randint(-6, 6))
    return out


def _coords(r, rng):
    E = r["edges"] if r["form"] == "nested" else [r["edges"]]
    per_axis = [special_coords(a, rng) for a in E]
    total = 1
    for p in per_axis:
        total *= len(p)
    pts = []
    if len(E) == 1:
        pts = [(x,) for x in per_axis[0]]
    elif total <= 3000:
        pts = list(itertools.product(*per_axis))
    nsample = r["nsample"] if pts == [] else r["nsample"] // 3
    for _ in range(nsample):
        pts.append(tuple(rng.choice(p) for p in per_axis))
    rng.shuffle(pts)
    return E, per_axis, pts


def run_case(r, obs):
    import lena.core
    import lena.structures
    mon.attach()        # idempotent; --replay runs a case without setup_worker
    try:
        if r["k"] == "longmesh":
            _long_mesh(r, obs, lena)
        elif r["k"] == "history":
            _history(r, obs, lena)
        elif r["k"] == "bad_edges":
            _bad_edges(r, obs, lena)
        elif r["k"] == "dim_mismatch":
            obs.nontrivial = True
            h = lena.structures.histogram(r["edges"])
            before = (repr(h.bins), h.n_out_of_range)
            for call in (lambda: lena.structures.get_bin_on_value(r["coord"], r["edges"]),
                         lambda: h.fill(r["coord"])):
                try:
                    call()
                except lena.core.LenaValueError:
                    obs.count("dim_mismatch_rejected")
                except Exception as exc:  # pylint: disable=broad-except
                    obs.fail("dimension-mismatch-wrong-exception",
                             "coordinate %r with edges %r raised %r instead of LenaValueError"
                             % (r["coord"], r["edges"], exc))
                else:
                    obs.fail("dimension-mismatch-accepted",
                             "coordinate %r accepted for edges %r" % (r["coord"], r["edges"]))
            obs.check((repr(h.bins), h.n_out_of_range) == before,
                      "dimension-mismatch-changes-histogram", "rejected fill changed %r" % (h,))
        else:
            _fill_case(r, obs, lena)
    finally:
        mon.flush(obs)


def _long_mesh(r, obs, lena):
    obs.nontrivial = True
    mesh = {"range40+1e6": list(range(40)) + [10 ** 6],
            "pow2_0..40": [2 ** i for i in range(41)],
            "decades-30..30": [10.0 ** i for i in range(-30, 31)],
            "1e6+range40": [-10 ** 6] + list(range(40)),
            "squares60": [i * i for i in range(60)],
            "pow2_0..130": [2 ** i for i in range(131)],
            "pow2_0..300": [2.0 ** i for i in range(301)],
            "range200+1e9": list(range(200)) + [10 ** 9],
            "decades-150..150": [10.0 ** i for i in range(-150, 151)],
            "squares400": [i * i for i in range(400)],
            "1e9+range130": [-10 ** 9] + list(range(130)),
            "halves300": [-(0.5 ** i) for i in range(300)]}[r["mesh"]]
    h = lena.structures.histogram(list(mesh))
    ref = [0] * (len(mesh) - 1)
    oor = 0
    for e in mesh:
        for x in (e, math.nextafter(float(e), INF), math.nextafter(float(e), -INF),
                  e + (abs(e) or 1) * 0.37):
            got = lena.structures.get_bin_on_value_1d(x, mesh)
            exp = bisect.bisect_right(mesh, x) - 1
            obs.count("direct_1d_calls")
            obs.check(got == exp, "bin-index-differs-from-bisect:long-mesh",
                      "get_bin_on_value_1d(%r, <%s, %d edges>) = %r, bisect_right - 1 = %r"
                      % (x, r["mesh"], len(mesh), got, exp))
            h.fill(x)
            if 0 <= exp < len(ref):
                ref[exp] += 1
            else:
                oor += 1
    obs.check(h.bins == ref and h.n_out_of_range == oor, "final-bins-differ:structure:long-mesh",
              "histogram over %s filled with values on / beside / between its edges: bins %r, "
              "expected %r; n_out_of_range %r, expected %r" % (r["mesh"], h.bins, ref,
                                                                h.n_out_of_range, oor))


def _same(a, b):
    """Equality that takes nan for equal to nan (a rescaled histogram may hold them)."""
    return a == b or (a != a and b != b)


def _history(r, obs, lena):
    import copy
    import pickle
    rng = random.Random(r["rs"])
    E, per_axis, pts = _coords(r, rng)
    dim = len(E)
    nbins = [len(a) - 1 for a in E]
    element = r["target"] == "element"
    if element:
        el = lena.structures.Histogram(r["edges"])

    def flat(h):
        return [lena.structures.get_bin_on_index(list(idx), h.bins)
                for idx in itertools.product(*[range(n) for n in nbins])]

    class Track(object):
        def __init__(self, h, name):
            self.h, self.name = h, name
            self.ref, self.oor = flat(h), h.n_out_of_range

        def resync(self):
            self.ref, self.oor = flat(self.h), self.h.n_out_of_range
    tracks = [Track(el._hist if element else lena.structures.histogram(r["edges"]), "original")]
    hist = []
    n_in = n_out = 0
    for j, pt in enumerate(pts):
        # an operation between fills, now and then
        x = rng.random()
        t = rng.choice(tracks)
        if x < 0.08:
            tot = sum(t.ref)
            if tot not in (0, 0.0) and tot == tot and abs(tot) != INF:
                try:
                    t.h.scale(rng.choice([1, 2.5, 10]))
                    hist.append("%s.scale(x)" % t.name)
                except Exception as e:  # pylint: disable=broad-except
                    hist.append("%s.scale(x) raised %s" % (t.name, type(e).__name__))
                t.resync()
        elif x < 0.16:
            if sum(t.ref) not in (0, 0.0):
                try:
                    t.h.set_nevents(rng.choice([1, 100, 7.5]),
                                    include_out_of_range=rng.random() < 0.5)
                    hist.append("%s.set_nevents" % t.name)
                except Exception as e:  # pylint: disable=broad-except
                    hist.append("%s.set_nevents raised %s" % (t.name, type(e).__name__))
                t.resync()
        elif x < 0.20:
            t.h.scale()
            hist.append("%s.scale()" % t.name)
        elif x < 0.30 and len(tracks) < 4:
            how = rng.choice(["copy.deepcopy", "pickle"])
            try:
                c = copy.deepcopy(t.h) if how == "copy.deepcopy" else pickle.loads(pickle.dumps(t.h))
            except Exception as e:  # pylint: disable=broad-except
                obs.fail("history:copy-raises:" + type(e).__name__,
                         "%s of a histogram over %r raised %r after %r" % (how, r["edges"], e, hist))
                return
            hist.append("%s of %s" % (how, t.name))
            obs.count("histogram_copies")
            ct = Track(c, "%s(%s)" % (how, t.name))
            if not obs.check(all(_same(a, b) for a, b in zip(ct.ref, t.ref))
                             and _same(ct.oor, t.oor) and c.edges == t.h.edges
                             and c is not t.h and c.bins is not t.h.bins,
                             "history:copy-differs-from-original",
                             "%s of a histogram over %r after %r: bins %r n_out_of_range %r, the "
                             "original has %r and %r" % (how, r["edges"], hist, ct.ref, ct.oor,
                                                         t.ref, t.oor)):
                return
            tracks.append(ct)
        # the fill itself
        t = rng.choice(tracks)
        w = rng.choice([None, 1, 2, 3, -1, 5])
        coord = pt[0] if (dim == 1 and r["form"] == "flat") else list(pt)
        cell = mon.scan_cell(E, pt)
        wv = 1 if w is None else w
        if element and t is tracks[0]:
            el.fill(coord)
            wv = 1
        elif w is None:
            t.h.fill(coord)
        else:
            t.h.fill(coord, w)
        if cell is None:
            t.oor = t.oor + wv
            n_out += 1
        else:
            k = mon.flat_index(cell, nbins)
            t.ref[k] = t.ref[k] + wv
            n_in += 1
        hist.append("%s.fill(%r, %r)" % (t.name, coord, w))
        obs.count("fills")
        for tt in tracks:
            got = flat(tt.h)
            obs.count("reference_model_cells_compared", len(got))
            if not all(_same(a, b) for a, b in zip(got, tt.ref)) \
                    or not _same(tt.h.n_out_of_range, tt.oor):
                bad = [(mon.unflat_index(i, nbins), a, b)
                       for i, (a, b) in enumerate(zip(got, tt.ref)) if not _same(a, b)][:4]
                obs.fail("history:%s-differs-after-%s"
                         % ("bins" if bad else "n_out_of_range",
                            "fill" if tt is t else "fill-into-another-histogram"),
                         "histogram over %r, history %r: %s has cells (index, real, expected) %r, "
                         "n_out_of_range %r expected %r"
                         % (r["edges"], hist[-12:], tt.name, bad, tt.h.n_out_of_range, tt.oor))
                return
    if element:
        res = list(el.compute())
        obs.check(len(res) == 1
                  and all(_same(a, b) for a, b in zip(flat(res[0][0]), tracks[0].ref))
                  and _same(res[0][0].n_out_of_range, tracks[0].oor),
                  "history:element-result-differs",
                  "Histogram element over %r after %r yields %r" % (r["edges"], hist[-12:], res))
    obs.count("oracle_evaluations")
    if n_in and n_out and len(pts) >= 5:
        obs.nontrivial = True


def _bad_edges(r, obs, lena):
    obs.nontrivial = True
    e = r["edges"]
    try:
        if r["target"] == "check":
            lena.structures.check_edges_increasing(e)
        elif r["target"] == "histogram":
            lena.structures.histogram(e)
        else:
            lena.structures.Histogram(e)
    except lena.core.LenaValueError:
        obs.count("bad_edges_rejected")
    except Exception as exc:  # pylint: disable=broad-except
        obs.fail("bad-edges-wrong-exception:" + r["target"],
                 "edges %r: %s raised %r instead of LenaValueError" % (e, r["target"], exc))
    else:
        obs.fail("bad-edges-accepted:" + r["target"],
                 "not strictly increasing / too short edges %r accepted by %s" % (e, r["target"]))


def _fill_case(r, obs, lena):
    rng = random.Random(r["rs"])
    E, per_axis, pts = _coords(r, rng)
    dim = len(E)
    nbins = [len(a) - 1 for a in E]
    ncell = 1
    for n in nbins:
        ncell *= n
    edges = r["edges"]
    # direct calls of the index functions on every special coordinate (contracts fire)
    for arr, xs in zip(E, per_axis):
        for x in xs:
            got = lena.structures.get_bin_on_value_1d(x, arr)
            obs.count("direct_1d_calls")
            obs.check(got == bisect.bisect_right(arr, x) - 1, "bin-index-differs-from-bisect",
                      "get_bin_on_value_1d(%r, %r) = %r, bisect_right - 1 = %r"
                      % (x, arr, got, bisect.bisect_right(arr, x) - 1))
    # initial contents
    init = r["init"]
    ref = [0] * ncell
    kw = {}
    if init == "zerof" and r["target"] == "structure":
        kw["initial_value"] = 0.0
        ref = [0.0] * ncell
    elif init == "bins":
        ref = [rng.choice([0, 1, 5, 2.5, -3, 0.0]) for _ in range(ncell)]
        nested = list(ref)
        for n in reversed(nbins[1:]):
            nested = [nested[i:i + n] for i in range(0, len(nested), n)]
        kw["bins"] = nested
    element = r["target"] == "element"
    if element:
        el = lena.structures.Histogram(edges, **kw)
        h = el._hist
    else:
        h = lena.structures.histogram(edges, **kw)
    base = list(ref)
    ref_oor = 0
    weights = [None] * len(pts) if element else _weights(r["wkind"], rng, len(pts))
    n_in = n_out = 0
    reused_buf = []
    pending = None
    wsum_int = 0
    all_int = True
    for j, (pt, w) in enumerate(zip(pts, weights)):
        if dim == 1 and r["form"] == "flat":
            coord = pt[0]
        else:
            if r["ctype"] == "reused":
                reused_buf[:] = pt
                coord = reused_buf
            else:
                coord = list(pt) if r["ctype"] == "list" else tuple(pt)
        # reference model: linear scan, same addition
        cell = mon.scan_cell(E, pt)
        wv = 1 if w is None else w
        if cell is None:
            ref_oor = ref_oor + wv
            n_out += 1
        else:
            k = mon.flat_index(cell, nbins)
            ref[k] = ref[k] + wv
            n_in += 1
        if isinstance(wv, int):
            wsum_int += wv
        else:
            all_int = False
        # multi-dimensional index function called directly as well
        if j % 7 == 0:
            got = lena.structures.get_bin_on_value(coord, edges)
            exp = [bisect.bisect_right(a, x) - 1 for a, x in zip(E, pt)]
            obs.check(got == exp, "get_bin_on_value-differs-from-bisect",
                      "get_bin_on_value(%r, %r) = %r, expected %r" % (coord, edges, got, exp))
        if element:
            if j == len(pts) // 2 and r["ctx"]:
                # a consumer takes the result now and keeps the generator suspended while the
                # element goes on being filled; it is closed (or dropped) later
                pending = el.compute()
                next(pending)
                obs.count("suspended_computes")
            if r["ctx"] and j % 2:
                el.fill((coord, {"i": j}))
            else:
                el.fill(coord)
        elif w is None:
            h.fill(coord)
        elif j % 3 == 0:
            h.fill(coord, weight=w)
        else:
            h.fill(coord, w)
    obs.count("fills", len(pts))
    if element:
        if pending is not None:
            if len(pts) % 2:
                pending.close()
            del pending
        res = list(el.compute())
        if len(res) == 1 and isinstance(res[0], tuple) and \
                isinstance(res[0][0], lena.structures.histogram):
            h = res[0][0]       # what the element reports now holds every fill
        obs.check(len(res) == 1 and isinstance(res[0][1], dict),
                  "Histogram-compute-shape", "Histogram.compute() yielded %r" % (res,))
    # end-to-end comparison with the reference model, cells addressed by index product
    got_flat = [lena.structures.get_bin_on_index(list(idx), h.bins)
                for idx in itertools.product(*[range(n) for n in nbins])]
    obs.count("reference_model_cells_compared", len(got_flat))
    if got_flat != ref or h.n_out_of_range != ref_oor:
        bad = [(mon.unflat_index(i, nbins), a, b)
               for i, (a, b) in enumerate(zip(got_flat, ref)) if a != b][:5]
        where = "element" if element else "structure"
        if not bad:
            mech = "final-n_out_of_range-differs:" + where
        elif h.n_out_of_range != ref_oor:
            mech = "final-bins-and-n_out_of_range-differ:" + where
        else:
            mech = "final-bins-differ:" + where
        obs.fail(mech, "after %d fills into %s over edges %r: cells (index, real, reference) "
                 "%r; n_out_of_range real %r reference %r"
                 % (len(pts), where, edges, bad, h.n_out_of_range, ref_oor))
    else:
        obs.count("oracle_evaluations")
    # conservation, stated on the real object alone
    if all_int and all(isinstance(b, int) for b in base):
        tot = sum(got_flat) + h.n_out_of_range
        obs.check(tot == sum(base) + wsum_int, "conservation-broken:end-to-end",
                  "sum(bins) + n_out_of_range = %r, initial %r + filled weight %r (edges %r)"
                  % (tot, sum(base), wsum_int, edges))
    mon.final_conservation(h)
    if len(pts) >= 5 and n_in and n_out:
        obs.nontrivial = True
    if element:
        # the element used block after block (FillRequest(..., reset=True) does this): after
        # every reset() the same fills must give the same cells again - weight filled before
        # a reset is neither kept nor written into what reset() restores
        for rnd in (1, 2):
            el.reset()
            h2 = el._hist
            for pt in pts:
                if dim == 1 and r["form"] == "flat":
                    el.fill(pt[0])
                else:
                    el.fill(tuple(pt) if r["ctype"] == "tuple" else list(pt))
            flat2 = [lena.structures.get_bin_on_index(list(idx), h2.bins)
                     for idx in itertools.product(*[range(n) for n in nbins])]
            obs.count("element_reset_rounds")
            obs.count("reference_model_cells_compared", len(flat2))
            if not obs.check(flat2 == ref and h2.n_out_of_range == ref_oor,
                             "element-after-reset-differs:round-%d" % rnd,
                             "Histogram(%r, %r): reset() no. %d followed by the same %d fills gives "
                             "cells %r, n_out_of_range %r; the first round gave %r, %r"
                             % (edges, kw, rnd, len(pts), flat2, h2.n_out_of_range, ref, ref_oor)):
                break
            mon.final_conservation(h2)


def finish(tier, merged):
    """Both rounding branches of the interpolation search must have been executed."""
    from rv.harness import REPO
    rel = "lena/structures/hist_functions.py"
    covered = merged["lines"].get(rel, set())
    want = {"ind_min += 1": "branch_ind_min_eq_guess_reached",
            "ind_max -= 1": "branch_ind_max_eq_guess_reached"}
    found = {}
    try:
        with open(os.path.join(REPO, rel)) as f:
            for ln, text in enumerate(f, 1):
                t = text.strip()
                if t in want:
                    found.setdefault(t, []).append(ln)
    except OSError:
        pass
    for text, counter in want.items():
        if text not in found:
            # the statement does not exist in this tree (refactored): nothing to require
            merged["counters"][counter] += 1
            merged["counters"]["branch_statement_not_in_source"] += 1
        elif any(ln in covered for ln in found[text]):
            merged["counters"][counter] += 1


RULE += (' Coordinates are also given through one list object refilled in place; for the Histogram element two reset() rounds repeat the fills and must reproduce the cells of the first round.')
RULE += (' Added: five long strongly non-uniform meshes (41..61 edges) with values on, beside and '
         'between all edges; in the element cases a compute() generator is left suspended while '
         'the element goes on being filled, then closed or dropped.')

RULE += (' Round 10: histories of one histogram (fills interleaved with scale(x), set_nevents, scale(), deep copies and pickle round trips filled on beside the original); meshes of 130..400 edges.')
