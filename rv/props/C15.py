"""C15 - Selectors evaluate compositionally; GroupBy partitions by the selected context.

The real Selector / Not / SelectContext / Filter / GroupBy objects are built from
data recipes and driven on generated values; a reference evaluator (compositional
boolean semantics with raising leaves and per-node raise_on_error) and a reference
partition (longest-listed-prefix rule) judge every result.
"""
import itertools

from rv.props import _c08_ref as R

ID = "C15"
LEVEL = "exploration"
RULE = ("selector specifications: exhaustive depth<=1 (every leaf; [x,y], (x,y), Not(x) over "
        "all leaves; empty list/tuple) plus seeded random nestings to depth 3 over strings "
        "(context paths incl. through scalars), classes, total and raising callables, lists, "
        "tuples, Not, nested Selector/SelectContext objects with their own raise_on_error; "
        "both raise_on_error settings; each on 16 values (bare data of 10 types incl. bool and an int subclass, (data, "
        "context) pairs, non-pair tuples); Filter.run and fill_into on the same values. "
        "SelectContext: all key paths of length 1..3 over {a,b,c} x 3 notations x 6 predicates "
        "x both settings on seeded contexts. GroupBy: ALL 162 assignments of {'', a, b, a.c, "
        "a.c.d} to group_by/merge/unlisted with '' in exactly one (those rejected with "
        "LenaValueError are counted), argument forms str/tuple/list, x seeded flows of 10-14 "
        "contexts (a base context and single-node perturbations, scalars where a listed path "
        "expects a dictionary, values without context). Non-trivial: a selector case saw "
        "both True and False (or a raise); a GroupBy case produced >=2 groups, one of size "
        ">=2")
ASSUMPTIONS = [
    "string leaves are judged against the real lena.context.contains (the statement defines "
    "them by it); an exception of contains is an exception 'inside a leaf'",
    "generated predicates return real booleans; raising ones raise deterministically",
    "GroupBy context values are JSON-native and free of ==-equal but differently typed "
    "values (1/True/1.0); 'agree on a key path' is read as: both absent, both dictionaries, "
    "or equal non-dictionary values; a pair that differs only by a dictionary being "
    "present/absent at a selected path (without any selected non-dictionary value "
    "differing) may be grouped either way",
]
ANCHORS = [("lena/flow/selectors.py", 14, 111), ("lena/flow/selectors.py", 139, 311),
           ("lena/flow/filter.py", 39, 56), ("lena/flow/group_by.py", 20, 122),
           ("lena/context/include_exclude_tree.py", 4, 228)]
MUST_REACH = ["lena/flow/selectors.py:Selector.__init__", "lena/flow/selectors.py:Selector.__call__",
              "lena/flow/selectors.py:SelectContext.__call__", "lena/flow/selectors.py:And.__call__",
              "lena/flow/selectors.py:Or.__call__", "lena/flow/selectors.py:Not.__call__",
              "lena/flow/filter.py:Filter.run", "lena/flow/filter.py:Filter.fill_into",
              "lena/flow/group_by.py:GroupBy.fill", "lena/flow/group_by.py:GroupBy.compute",
              "lena/context/include_exclude_tree.py:IncludeExcludeTree.get",
              "lena/context/include_exclude_tree.py:_make_include_exclude_tree"]
MUST_COUNT = ["selector_evaluations", "reference_leaf_raises", "swallowed_by_raise_on_error_false",
              "filter_runs", "selectcontext_evaluations", "groupby_fills", "groupby_pairs_judged",
              "groupby_configs_accepted", "groupby_configs_rejected"]
MIN_NONTRIVIAL = {"quick": 1500, "thorough": 50000}
LEVEL_TEXT = ("Exhaustive over depth-1 selector specifications and over all 162 group_by/merge "
              "assignments of the key set {'', a, b, a.c, a.c.d}; seeded random exploration of "
              "selector nestings to depth 3 and of context flows. Each real evaluation is "
              "compared with a compositional reference evaluator / the reference partition. "
              "Held on the explored programs and inputs only.")
LEVEL_NOTE = ("Trusts the 60-line reference evaluator and the 40-line partition model; string "
              "leaves use the real contains as their definition.")
TECHNIQUE = "reference evaluator + reference partition on seeded/enumerated specifications"

NSEL = {"quick": 1800, "thorough": 100000}
NSELCTX = {"quick": 60, "thorough": 1500}
NGROUP_FLOWS = {"quick": 10, "thorough": 300}     # flows per group_by/merge assignment

STRS = ["a", "b", "a.b", "a.c.d", "b.x", "a.b.c", "zz", "a.5",
        # the last part compared with the text of a leaf value (None, True, 1, 0, 2.5, "")
        "a.None", "b.None", "c.a.None", "a.True", "b.1", "c.0", "a.2.5", "b."]
CLSS = ["int", "str", "float", "tuple", "list", "Marker", "CallableCls", "dict",
        # classes whose metaclass is not type: ABCs, a user ABC hierarchy, an Enum, a custom
        # metaclass - classes like any other (isinstance of the data)
        "Real", "Sized", "AbcEvent", "Color", "MetaMade"]
FNS_TOTAL = ["even", "pos", "true", "false", "hasctx"]
FNS_RAISING = ["raise_value", "raise_on_str", "attr", "zerodiv", "ctxkey",
               # lena's own exception classes and a control-flow one: "an exception inside any
               # leaf" is any exception
               # (not StopIteration: PEP 479 turns it into RuntimeError inside Filter.run's
               # generator, which is Python's doing, not lena's)
               "raise_stopfill", "raise_lenakey", "raise_runtime"]
PREDS = ["isdict", "eq5", "truthy", "raise", "len2", "false",
         # classes used as predicates (called with the sub-context like any callable)
         "cls_bool", "cls_dict", "cls_str",
         # predicates that read the sub-context themselves and meet a missing key
         "raise_lenakey", "raise_keyerror", "reads_missing"]


class Marker(object):
    def __repr__(self):
        return "Marker()"


class CallableCls(object):
    """A callable class: Selector must treat it as a class (isinstance), not call it."""
    def __call__(self, v):
        raise AssertionError("callable class instance must not be called")

    def __repr__(self):
        return "CallableCls()"


import abc as _abc
import enum as _enum


class AbcEvent(_abc.ABC):
    """A user's abstract base of event classes; instantiable subclasses take one argument."""

    def __init__(self, payload):
        self.payload = payload


class AbcEventSub(AbcEvent):
    def __repr__(self):
        return "AbcEventSub(%r)" % (self.payload,)


class Color(_enum.Enum):
    RED = 1
    BLUE = 2


class _Meta(type):
    pass


MetaMade = _Meta("MetaMade", (object,), {"__init__": lambda self, v=None: None})


class SubInt(int):
    """Subclass instance: a class selector is an isinstance test."""


class LeafError(ValueError):
    pass


def leaves():
    return [["str", s] for s in STRS] + [["cls", c] for c in CLSS] + \
        [["fn", f] for f in FNS_TOTAL + FNS_RAISING]


def rand_spec(rng, depth):
    if depth <= 0 or rng.random() < 0.3:
        return rng.choice(leaves())
    k = rng.choice(["or", "and", "not", "or", "and", "sel", "selctx"])
    if k in ("or", "and"):
        return [k, [rand_spec(rng, depth - 1) for _ in range(rng.choice([0, 1, 2, 2, 3]))]]
    if k == "not":
        return ["not", rand_spec(rng, depth - 1), rng.choice([True, False])]
    if k == "sel":
        return ["sel", rand_spec(rng, depth - 1), rng.choice([True, False])]
    return ["selctx", rng.choice(["str", "list", "dict"]),
            [rng.choice("abc") for _ in range(rng.randint(1, 3))], rng.choice(PREDS),
            rng.choice([True, False])]


def rand_values(rng):
    base = R.rand_ctx(rng, 3)
    vals = [[5, None], [0, None], ["s", None], [2.5, None], [["T", 1, 2, 3], None],
            [["L", 1], None], [["M"], None], [["C"], None], [["T", 1, 2], None],
            [True, None], [["I", 7], None], [["E", 1], None], [["EN"], None], [["MM"], None]]
    for _ in range(5):
        c = R.rand_ctx(rng, 3) if rng.random() < 0.5 else base
        vals.append([rng.choice([4, 7, 0, "s", 2.5, ["L", 1], ["M"], ["T", 1, 2], ["I", 3],
                                 ["E", 2], ["EN"], ["MM"]]),
                     R.cp(c)])
    return vals


def cases(tier, seed):
    from rv import gen
    lv = leaves()
    # exhaustive depth <= 1
    d1 = [x for x in lv]
    d1 += [["or", []], ["and", []]]
    d1 += [["or", [x]] for x in lv] + [["and", [x]] for x in lv]
    d1 += [["not", x, None] for x in lv]
    for i, spec in enumerate(d1):
        rng = gen.rng_for(seed, "C15", "d1", i)
        yield {"k": "sel", "specs": [spec], "values": rand_values(rng)}
    pairs = list(itertools.product(range(len(lv)), repeat=2))
    for i in range(0, len(pairs), 12):
        rng = gen.rng_for(seed, "C15", "d1p", i)
        chunk = pairs[i:i + 12]
        yield {"k": "sel", "specs": [[kind, [lv[a], lv[b]]] for a, b in chunk
                                     for kind in ("or", "and")],
               "values": rand_values(rng)}
    for i in range(NSEL[tier]):
        rng = gen.rng_for(seed, "C15", "sel", i)
        yield {"k": "sel", "specs": [rand_spec(rng, rng.choice([2, 3, 3])) for _ in range(4)],
               "values": rand_values(rng)}
    # beyond the small sizes: lists and tuples of 16..60 alternatives (leaves, negated leaves,
    # small nestings), and nestings 5..8 deep
    for i in range(60 if tier == "quick" else 2000):
        rng = gen.rng_for(seed, "C15", "wide", i)
        specs = []
        for _ in range(3):
            if rng.random() < 0.7:
                n = rng.choice([16, 17, 20, 32, 33, 40, 60])
                items = []
                for _j in range(n):
                    x = rng.random()
                    leaf = rng.choice(lv)
                    if x < 0.25:
                        items.append(["not", leaf, rng.choice([None, True, False])])
                    elif x < 0.35:
                        items.append(rand_spec(rng, 2))
                    else:
                        items.append(leaf)
                specs.append([rng.choice(["or", "or", "and"]), items])
            else:
                sp = rng.choice(lv)
                for _d in range(rng.randint(5, 8)):
                    sp = rng.choice([["or", [sp, rng.choice(lv)]], ["and", [rng.choice(lv), sp]],
                                     ["not", sp, None], ["or", [sp]]])
                specs.append(sp)
        yield {"k": "sel", "specs": specs, "values": rand_values(rng)}
    for i in range(NSELCTX[tier]):
        rng = gen.rng_for(seed, "C15", "selctx", i)
        yield {"k": "selctx", "ctxs": [R.rand_ctx(rng, 3) for _ in range(4)] + [{}, None]}
    entries = ["a", "b", "a.c", "a.c.d"]
    n = 0
    for root_in in ("group_by", "merge"):
        for assign in itertools.product(("g", "m", "-"), repeat=4):
            gb = [""] if root_in == "group_by" else []
            mg = [""] if root_in == "merge" else []
            for e, a in zip(entries, assign):
                if a == "g":
                    gb.append(e)
                elif a == "m":
                    mg.append(e)
            for f in range(NGROUP_FLOWS[tier]):
                rng = gen.rng_for(seed, "C15", "grp", n)
                n += 1
                # the order in which the keys are listed must not matter (f = 0: as enumerated)
                gbo, mgo = list(gb), list(mg)
                if f % 2:
                    gbo.reverse()       # every extension listed before its prefix
                    mgo.reverse()
                elif f:
                    rng.shuffle(gbo)
                    rng.shuffle(mgo)
                yield {"k": "group", "group_by": gbo, "merge": mgo,
                       "form": rng.choice(["tuple", "tuple", "list", "auto"]),
                       "flow": rand_group_flow(rng)}
    yield {"k": "group_default"}


# ------------------------------------------------------------------ GroupBy workload
GVALS = [2, 3, "s", "t", None, [1, 2]]


def rand_gctx(rng):
    """Context over the listed alphabet a, b, a.c, a.c.d (+ unlisted x, y, e)."""
    def val():
        return R.cp(rng.choice(GVALS))
    c = {}
    r = rng.random()
    if r < 0.2:
        pass
    elif r < 0.35:
        c["a"] = val()                      # scalar where a.c expects a dictionary
    else:
        a = {}
        r2 = rng.random()
        if r2 < 0.2:
            pass
        elif r2 < 0.4:
            a["c"] = val()                  # scalar where a.c.d expects a dictionary
        else:
            ac = {}
            if rng.random() < 0.7:
                ac["d"] = val() if rng.random() < 0.8 else {"z": val()}
            if rng.random() < 0.5:
                ac["y"] = val()
            a["c"] = ac
        if rng.random() < 0.5:
            a["x"] = val()
        c["a"] = a
    r = rng.random()
    if r < 0.5:
        c["b"] = val()
    elif r < 0.7:
        c["b"] = {"x": val()}
    if rng.random() < 0.3:
        c["e"] = val()
    return c


def perturb_gctx(rng, c):
    c = R.cp(c) if c is not None else {}
    paths = [["a"], ["b"], ["e"], ["a", "c"], ["a", "x"], ["a", "c", "d"], ["a", "c", "y"],
             ["b", "x"]]
    p = rng.choice(paths)
    r = rng.random()
    if r < 0.3:
        R.delete(c, p)
    elif r < 0.85:
        R.write(c, p, R.cp(rng.choice(GVALS)), False)
    else:
        R.write(c, p, {}, False)
    return c


def rand_group_flow(rng):
    base = rand_gctx(rng)
    flow = [base]
    for _ in range(rng.randint(9, 13)):
        r = rng.random()
        if r < 0.55:
            flow.append(perturb_gctx(rng, rng.choice(flow)))
        elif r < 0.7:
            c = rng.choice(flow)
            # an equal context, keys inserted in another order
            flow.append(R.shuffled(rng, c) if c is not None else None)
        elif r < 0.95:
            flow.append(rand_gctx(rng))
        else:
            flow.append(None)       # value without context
    return flow


def selected(path, gb, mg):
    """Longest listed prefix of *path* is a group_by entry."""
    best, best_len = None, -1
    for which, entries in (("g", gb), ("m", mg)):
        for e in entries:
            ep = e.split(".") if e else []
            if len(ep) > best_len and list(path[:len(ep)]) == ep:
                best, best_len = which, len(ep)
    return best == "g"


def part_keys(ctx, gb, mg):
    """(strong, weak) reference keys of a context."""
    import json
    strong, weak = set(), set()

    def walk(d, path):
        for k, v in d.items():
            p = path + (k,)
            sel = selected(p, gb, mg)
            if isinstance(v, dict):
                if sel:
                    strong.add((p, "DICT"))
                walk(v, p)
            elif sel:
                item = (p, json.dumps(v, sort_keys=True))
                strong.add(item)
                weak.add(item)
    walk(ctx, ())
    return frozenset(strong), frozenset(weak)


# ------------------------------------------------------------------ building real objects
def total_fn(name):
    from rv import gen
    if name == "hasctx":
        return lambda v: gen.has_ctx(v)
    return gen.pred(name)


def make_fn(name):
    from rv import gen
    if name in FNS_TOTAL:
        return total_fn(name)
    if name == "raise_value":
        def raise_value(v):
            raise LeafError("leaf raises")
        return raise_value
    if name == "raise_on_str":
        def raise_on_str(v):
            if isinstance(gen.data_of(v), str):
                raise TypeError("string data")
            return True
        return raise_on_str
    if name in ("raise_stopfill", "raise_lenakey", "raise_runtime"):
        import lena.core
        exc = {"raise_stopfill": lena.core.LenaStopFill, "raise_lenakey": lena.core.LenaKeyError,
               "raise_runtime": RuntimeError}[name]

        def raise_odd(v, exc=exc):
            # on values with an odd numeric view only: the other values are judged normally
            if gen._num(gen.data_of(v)) % 2:
                raise exc("leaf raises %s" % exc.__name__)
            return True
        return raise_odd
    if name == "attr":
        return lambda v: v.missing_attribute
    if name == "zerodiv":
        return lambda v: 1 // gen._num(gen.data_of(v)) > 0
    if name == "ctxkey":
        return lambda v: gen.ctx_of(v)["a"] is not None
    raise AssertionError(name)


def make_cls(name):
    import collections.abc
    import numbers
    return {"int": int, "str": str, "float": float, "tuple": tuple, "list": list, "dict": dict,
            "Marker": Marker, "CallableCls": CallableCls, "Real": numbers.Real,
            "Sized": collections.abc.Sized, "AbcEvent": AbcEvent, "Color": Color,
            "MetaMade": MetaMade}[name]


def make_pred(name):
    if name == "isdict":
        return lambda s: isinstance(s, dict)
    if name == "eq5":
        return lambda s: s == 5
    if name == "truthy":
        return lambda s: bool(s)
    if name == "false":
        return lambda s: False
    if name == "len2":
        return lambda s: len(s) == 2
    if name == "raise_lenakey":
        def pred_lenakey(s):
            import lena.core
            raise lena.core.LenaKeyError("predicate needs a key that is missing")
        return pred_lenakey
    if name == "raise_keyerror":
        def pred_keyerror(s):
            raise KeyError("missing")
        return pred_keyerror
    if name == "reads_missing":
        def pred_reads(s):
            import lena.context
            return lena.context.get_recursively(s if isinstance(s, dict) else {},
                                                "no.such.key") is not None
        return pred_reads
    if name == "cls_bool":
        return bool
    if name == "cls_dict":
        return dict
    if name == "cls_str":
        return str
    if name == "raise":
        def pred_raise(s):
            raise LeafError("predicate raises")
        return pred_raise
    raise AssertionError(name)


def key_notation(form, path):
    if form == "str":
        return ".".join(path)
    if form == "list":
        return list(path)
    d = {}
    for k in reversed(path):
        d = {k: d}
    return d


def make_value(v):
    data, ctx = v
    if isinstance(data, list):
        tag = data[0]
        if tag == "T":
            data = tuple(data[1:])
        elif tag == "L":
            data = list(data[1:])
        elif tag == "M":
            data = Marker()
        elif tag == "C":
            data = CallableCls()
        elif tag == "I":
            data = SubInt(data[1])
        elif tag == "E":
            data = AbcEventSub(data[1])
        elif tag == "EN":
            data = Color.RED
        elif tag == "MM":
            data = MetaMade()
    if ctx is None:
        return data
    return (data, R.cp(ctx))


def build(node, roe):
    """Python object usable as Selector argument / container item."""
    import lena.flow
    k = node[0]
    if k == "str":
        return node[1]
    if k == "cls":
        return make_cls(node[1])
    if k == "fn":
        return make_fn(node[1])
    if k == "or":
        return [build(x, roe) for x in node[1]]
    if k == "and":
        return tuple(build(x, roe) for x in node[1])
    if k == "not":
        r2 = roe if node[2] is None else node[2]
        return lena.flow.Not(build(node[1], r2), raise_on_error=r2)
    if k == "sel":
        return lena.flow.Selector(build(node[1], node[2]), raise_on_error=node[2])
    if k == "selctx":
        return lena.flow.SelectContext(key_notation(node[1], node[2]), make_pred(node[3]),
                                       raise_on_error=node[4])
    raise AssertionError(node)


def build_top(node, roe):
    import lena.flow
    obj = build(node, roe)
    if isinstance(obj, lena.flow.Selector):
        return obj
    return lena.flow.Selector(obj, raise_on_error=roe)


# ------------------------------------------------------------------ reference evaluator
class Stats(object):
    def __init__(self):
        self.leaf_raises = 0
        self.swallowed = 0


def data_ctx(value):
    if isinstance(value, tuple) and len(value) == 2 and isinstance(value[1], dict):
        return value[0], value[1]
    return value, {}


def ev(node, value, roe, st):
    """Reference result of the selector built from *node* with inherited raise_on_error."""
    import lena.context
    k = node[0]
    if k in ("str", "cls", "fn"):
        try:
            if k == "str":
                # the statement defines string leaves by the real contains
                return lena.context.contains(data_ctx(value)[1], node[1])
            if k == "cls":
                return isinstance(data_ctx(value)[0], make_cls(node[1]))
            return make_fn(node[1])(value)
        except Exception:  # pylint: disable=broad-except
            st.leaf_raises += 1
            if roe:
                raise
            st.swallowed += 1
            return False
    if k in ("or", "and"):
        try:
            if k == "or":
                return any(ev(x, value, roe, st) for x in node[1])
            return all(ev(x, value, roe, st) for x in node[1])
        except Exception:  # pylint: disable=broad-except
            if roe:
                raise
            st.swallowed += 1
            return False
    if k == "not":
        r2 = roe if node[2] is None else node[2]
        try:
            inner = ev(node[1], value, r2, st)
        except Exception:  # pylint: disable=broad-except
            if r2:
                raise
            st.swallowed += 1
            inner = False
        return not inner
    if k == "sel":
        try:
            return ev(node[1], value, node[2], st)
        except Exception:  # pylint: disable=broad-except
            if node[2]:
                raise
            st.swallowed += 1
            return False
    if k == "selctx":
        sub = R.get(data_ctx(value)[1], node[2])
        if sub is R.ABSENT:
            return False
        try:
            return make_pred(node[3])(sub)
        except Exception:  # pylint: disable=broad-except
            st.leaf_raises += 1
            if node[4]:
                raise
            st.swallowed += 1
            return False
    raise AssertionError(node)


def has_composed_selctx(node, top=True):
    k = node[0]
    if k == "selctx":
        return not top
    if k in ("or", "and"):
        return any(has_composed_selctx(x, False) for x in node[1])
    if k in ("not", "sel"):
        return has_composed_selctx(node[1], False)
    return False


def construction_mech(spec, e):
    if isinstance(e, AttributeError) and has_composed_selctx(spec):
        return "selector-construction-AttributeError-selectcontext-inside-composition"
    return "selector-construction-%s:%s" % (type(e).__name__, spec[0])


def outcome(thunk):
    try:
        return ("ok", bool(thunk()))
    except Exception as e:  # pylint: disable=broad-except
        return ("exc", type(e).__name__)


def subnodes(node):
    k = node[0]
    if k in ("or", "and"):
        for x in node[1]:
            for y in subnodes(x):
                yield y
    elif k in ("not", "sel"):
        for y in subnodes(node[1]):
            yield y
    yield node


LEAF_EXCEPTIONS = ("LeafError", "TypeError", "AttributeError", "ZeroDivisionError", "KeyError",
                   "LenaStopFill", "LenaKeyError", "RuntimeError", "StopIteration")


def mismatch_kind(exp, got):
    if exp[0] == "ok" and got[0] == "ok":
        return "wrong-result"
    if exp[0] == "ok":
        # exceptions of the generated leaves are one mechanism (not honouring raise_on_error /
        # short-circuit); anything else (NameError, ...) is named
        if got[1] in LEAF_EXCEPTIONS:
            return "raises-leaf-exception"
        return "raises-" + got[1]
    if got[0] == "ok":
        return "swallows-exception"
    return "wrong-exception-type"


def selctx_mech(node, value_r, exp, got):
    ctx = value_r[1] if isinstance(value_r[1], dict) else {}
    shp = "present" if R.get(ctx, node[2]) is not R.ABSENT else "absent"
    return "selectcontext-%s-key-%s%s" % (
        mismatch_kind(exp, got), shp,
        "" if (node[4] or shp == "absent") else "-with-raise_on_error-false")


def localize(node, value_r, roe):
    """Smallest sub-specification whose real evaluation differs from the reference."""
    for sub in subnodes(node):
        for r in ((roe,) if sub is node else (True, False)):
            st = Stats()
            exp = outcome(lambda: ev(sub, make_value(value_r), r, st))
            try:
                real = build_top(sub, r)
            except Exception as e:  # pylint: disable=broad-except
                return sub, ("exc", "construction-" + type(e).__name__), exp, r
            got = outcome(lambda: real(make_value(value_r)))
            if got != exp:
                return sub, got, exp, r
    return None


class Collect(object):
    def __init__(self):
        self.got = []

    def fill(self, v):
        self.got.append(v)


_worker_seen = {}
PER_WORKER = 3


class Ctl(object):
    def __init__(self, obs):
        self.obs = obs
        self.seen = {}
        self.evals = 0

    def fail(self, mech, msg):
        n = self.seen.get(mech, 0)
        self.seen[mech] = n + 1
        if n == 0:
            _worker_seen[mech] = _worker_seen.get(mech, 0) + 1
            if _worker_seen[mech] <= PER_WORKER:
                self.obs.fail(mech, msg)
            else:
                self.obs.count("violating_cases_folded")

    def close(self):
        self.obs.count("oracle_evaluations", self.evals)
        for mech, n in self.seen.items():
            if n > 1:
                self.obs.count("violating_checks_folded", n - 1)


def run_case(r, obs):
    import lena.flow
    import lena.context
    import lena.core
    ctl = Ctl(obs)
    try:
        {"sel": run_sel, "selctx": run_selctx, "group": run_group,
         "group_default": run_group_default}[r["k"]](r, obs, ctl)
    finally:
        ctl.close()


# ------------------------------------------------------------------ selectors, Filter
def run_sel(r, obs, ctl):
    import lena.flow
    import lena.core
    seen = set()
    for spec in r["specs"]:
        for roe in (True, False):
            st = Stats()
            try:
                sel = build_top(spec, roe)
            except Exception as e:  # pylint: disable=broad-except
                obs.count("selector_constructions_failed")
                ctl.fail(construction_mech(spec, e),
                         "building Selector(%r, raise_on_error=%r) raised %s: %s"
                         % (spec, roe, type(e).__name__, str(e)[:200]))
                continue
            exps = []
            all_agree = True
            for vr in r["values"]:
                exp = outcome(lambda: ev(spec, make_value(vr), roe, st))
                got = outcome(lambda: sel(make_value(vr)))
                exps.append(exp)
                seen.add(exp)
                obs.count("selector_evaluations")
                ctl.evals += 1
                if got != exp:
                    loc = localize(spec, vr, roe)
                    if loc is None:
                        sub, g2, e2, r2 = spec, got, exp, roe
                    else:
                        sub, g2, e2, r2 = loc
                    all_agree = False
                    ctl.fail(selctx_mech(sub, vr, e2, g2) if sub[0] == "selctx" else
                             "selector-%s-%s%s" % (
                                 sub[0], mismatch_kind(e2, g2),
                                 "" if r2 else "-with-raise_on_error-false"),
                             "Selector(%r, raise_on_error=%r)(%r) -> %r, reference evaluator "
                             "-> %r; smallest disagreeing part %r (raise_on_error=%r): %r vs %r"
                             % (spec, roe, make_value(vr), got, exp, sub, r2, g2, e2))
                if not roe and spec[0] in ("str", "cls", "fn", "or", "and") and got[0] == "exc" \
                        and got == exp:
                    ctl.fail("selector-raises-with-raise_on_error-false",
                             "Selector(%r, raise_on_error=False)(%r) raised %s"
                             % (spec, make_value(vr), got[1]))
            # a copy of the selector (deep copy: what the elements that copy their sequences
            # make; pickle where the specification allows it) gives the same answers
            import copy
            import pickle
            for cname, cp in (("copy.deepcopy", copy.deepcopy), ("copy.copy", copy.copy),
                              ("pickle", lambda o: pickle.loads(pickle.dumps(o)))):
                try:
                    sel2 = cp(sel)
                except Exception:  # pylint: disable=broad-except
                    obs.count("selector_copies_not_possible:" + cname)
                    continue
                obs.count("selector_copies")
                for vr, exp in zip(r["values"], exps):
                    got2 = outcome(lambda: sel2(make_value(vr)))
                    ctl.evals += 1
                    if got2 != exp and all_agree:
                        ctl.fail("selector-copy-differs:" + cname,
                                 "%s of Selector(%r, raise_on_error=%r) gives %r for %r, the "
                                 "selector itself and the reference evaluator %r"
                                 % (cname, spec, roe, got2, make_value(vr), exp))
                        break
            obs.count("reference_leaf_raises", st.leaf_raises)
            obs.count("swallowed_by_raise_on_error_false", st.swallowed)
            # Filter keeps exactly the selected values (run: lazily, up to the first raise)
            flow = [make_value(vr) for vr in r["values"]]
            keep, exc = [], None
            for v, e in zip(flow, exps):
                if e[0] == "exc":
                    exc = e[1]
                    break
                if e[1]:
                    keep.append(v)
            for how in ("selector-object", "specification"):
                if how == "specification":
                    if not roe or isinstance(build(spec, True), lena.flow.Selector):
                        continue
                    try:
                        f = lena.flow.Filter(build(spec, True))
                    except Exception as e:  # pylint: disable=broad-except
                        ctl.fail("filter-" + construction_mech(spec, e),
                                 "Filter(%r) raised %r" % (spec, e))
                        continue
                else:
                    f = lena.flow.Filter(sel)
                got, gexc = [], None
                try:
                    for v in f.run(iter(flow)):
                        got.append(v)
                except Exception as e:  # pylint: disable=broad-except
                    gexc = type(e).__name__
                obs.count("filter_runs")
                ctl.evals += 2
                same = len(got) == len(keep) and all(a is b for a, b in zip(got, keep))
                if (not same or gexc != exc) and not all_agree:
                    obs.count("filter_differences_explained_by_selector_mismatch")
                elif not same or gexc != exc:
                    ctl.fail("filter-run-differs",
                             "Filter(%r, raise_on_error=%r).run over %r kept %r (exception %r), "
                             "the selected values are %r (exception %r)"
                             % (spec, roe, flow, got, gexc, keep, exc))
                col = Collect()
                gexc = None
                try:
                    for v in flow:
                        f.fill_into(col, v)
                except Exception as e:  # pylint: disable=broad-except
                    gexc = type(e).__name__
                same = len(col.got) == len(keep) and all(a is b for a, b in zip(col.got, keep))
                if (not same or gexc != exc) and not all_agree:
                    obs.count("filter_differences_explained_by_selector_mismatch")
                elif not same or gexc != exc:
                    ctl.fail("filter-fill_into-differs",
                             "Filter(%r, raise_on_error=%r).fill_into over %r filled %r "
                             "(exception %r), expected %r (exception %r)"
                             % (spec, roe, flow, col.got, gexc, keep, exc))
        # the same specification OBJECT used for two selectors with different raise_on_error
        # (a list of cuts defined once): the second behaves like one built from its own copy,
        # and the user's containers are left as they were
        if spec[0] in ("or", "and") and spec[1] and "None]" not in repr(spec).replace(
                "'None'", ""):
            # (a nested Not whose raise_on_error is inherited is built once, with the setting of
            # build(); the reference below evaluates it with the other one: not comparable)
            try:
                obj = build(spec, True)

                def layout(o):
                    if isinstance(o, (list, tuple)):
                        return (type(o).__name__, id(o), [layout(x) for x in o])
                    return id(o)
                before = layout(obj)
                first = lena.flow.Selector(obj, raise_on_error=True)
                second = lena.flow.Selector(obj, raise_on_error=False)
            except Exception:  # pylint: disable=broad-except
                obs.count("selector_constructions_failed")
            else:
                obs.count("shared_specification_objects")
                ctl.evals += 1
                if layout(obj) != before:
                    ctl.fail("selector-changes-the-specification-it-was-given",
                             "Selector(spec) changed the user's list / tuple in place: %r (was "
                             "built from %r)" % (obj, spec))
                st2 = Stats()
                for vr in r["values"]:
                    exp = outcome(lambda: ev(spec, make_value(vr), False, st2))
                    got = outcome(lambda: second(make_value(vr)))
                    ctl.evals += 1
                    if got != exp:
                        ctl.fail("selector-built-from-a-shared-specification-differs",
                                 "two selectors built from one list object %r, raise_on_error=True "
                                 "then False: the second gives %r for %r, one built from its own "
                                 "copy %r" % (spec, got, make_value(vr), exp))
                        break
                del first
            # ... and a list / tuple made of ready Selector objects, which the user goes on
            # editing after the selector was built (a list of cuts extended for the next
            # analysis): the built selector keeps its meaning
            try:
                obj = build(spec, True)
                if isinstance(obj, (list, tuple)):
                    parts = type(obj)(lena.flow.Selector(x, raise_on_error=False) for x in obj)
                    built = lena.flow.Selector(parts, raise_on_error=False)
                else:
                    built = None
            except Exception:  # pylint: disable=broad-except
                built = None
            if built is not None:
                answers = [outcome(lambda: built(make_value(vr))) for vr in r["values"]]
                if isinstance(parts, list):
                    parts.append(lena.flow.Selector(lambda v: True))
                    parts.insert(0, lena.flow.Selector(lambda v: False))
                    del parts[1:2]
                again = [outcome(lambda: built(make_value(vr))) for vr in r["values"]]
                ctl.evals += 1
                obs.count("specifications_edited_after_construction")
                if again != answers:
                    ctl.fail("selector-follows-later-edits-of-its-specification-list",
                             "a selector built from a list of Selector objects (%r) answers %r; "
                             "after the user's list was edited it answers %r"
                             % (spec, answers, again))
    obs.nontrivial = len(seen) >= 2
    # a class leaf asks isinstance every time: a type registered with an ABC after the selector
    # has already seen it is selected from then on
    import abc

    class Shape(abc.ABC):
        pass

    class Late(object):
        pass
    for roe in (True, False):
        sel_abc = lena.flow.Selector(Shape, raise_on_error=roe)
        first = [sel_abc(Late()), sel_abc((Late(), {"a": 1})), sel_abc(5)]
        Shape.register(Late)
        second = [sel_abc(Late()), sel_abc((Late(), {"a": 1})), sel_abc(5)]
        ctl.evals += 1
        if first != [False, False, False] or second != [True, True, False]:
            ctl.fail("selector-cls-wrong-result:type-registered-later",
                     "Selector(ABC) on instances of a class registered with the ABC after the "
                     "first evaluation: before %r, after %r (expected all False, then True, True, "
                     "False)" % (first, second))

        class Late(object):     # a new class for the next round
            pass


def _to_dd(v):
    import collections
    if isinstance(v, dict):
        d = collections.defaultdict(dict)
        for k, x in v.items():
            d[k] = _to_dd(x)
        return d
    if isinstance(v, list):
        return [_to_dd(x) for x in v]
    return v


def _plain(v):
    if isinstance(v, dict):
        return {k: _plain(x) for k, x in v.items()}
    if isinstance(v, list):
        return [_plain(x) for x in v]
    return v


def run_selctx(r, obs, ctl):
    import lena.flow
    seen = set()
    paths = [p for p in R.all_paths(3) if p]
    for ctx in r["ctxs"]:
        for p in paths:
            for form in ("str", "list", "dict"):
                for pred in PREDS:
                    for roe in (True, False):
                        node = ["selctx", form, p, pred, roe]
                        value_r = [1, ctx]
                        st = Stats()
                        exp = outcome(lambda: ev(node, make_value(value_r), roe, st))
                        sc = build(node, roe)
                        got = outcome(lambda: sc(make_value(value_r)))
                        seen.add(exp)
                        obs.count("selectcontext_evaluations")
                        ctl.evals += 1
                        if got != exp:
                            ctl.fail(selctx_mech(node, value_r, exp, got),
                                "SelectContext(%r, %s, raise_on_error=%r) on context %r -> %r, "
                                "expected %r" % (key_notation(form, p), pred, roe, ctx, got, exp))
                        if form == "str" and roe:
                            # the same context as a tree of dict subclasses with __missing__
                            # (collections.defaultdict): absent stays absent, nothing is created
                            ddc = _to_dd(ctx)
                            gotd = outcome(lambda: sc((1, ddc)))
                            obs.count("selectcontext_evaluations_on_defaultdict")
                            ctl.evals += 1
                            if gotd != exp or _plain(ddc) != ctx:
                                ctl.fail("selectcontext-wrong-result:dict-subclass-with-__missing__",
                                         "SelectContext(%r, %s) on the defaultdict tree of %r -> %r "
                                         "(context afterwards %r), on the plain dictionary %r"
                                         % (key_notation(form, p), pred, ctx, gotd, _plain(ddc),
                                            exp))
    obs.nontrivial = len(seen) >= 2
    # keys that contain a dot: nameable by a list of keys (and a one-key-per-level dictionary),
    # where they are one component - never split again
    dotted_ctxs = [{"a.b": 5, "a": {"b": {"x": 1}}}, {"a": {"b": 5}},
                   {"output": {"plot.type": {"k": 1}, "plot": {"type": 5}}},
                   {"a.b": {"c.d": [1, 2]}}]
    dotted_paths = [["a.b"], ["a", "b"], ["output", "plot.type"], ["output", "plot", "type"],
                    ["a.b", "c.d"], ["a", "b.c"]]
    for ctx in dotted_ctxs:
        for p in dotted_paths:
            for form in ("list", "dict"):
                for pred in PREDS:
                    for roe in (True, False):
                        node = ["selctx", form, p, pred, roe]
                        value_r = [1, ctx]
                        st = Stats()
                        exp = outcome(lambda: ev(node, make_value(value_r), roe, st))
                        sc = build(node, roe)
                        got = outcome(lambda: sc(make_value(value_r)))
                        obs.count("selectcontext_evaluations")
                        ctl.evals += 1
                        if got != exp:
                            ctl.fail("selectcontext-wrong-result:key-component-with-a-dot",
                                     "SelectContext(%r, %s, raise_on_error=%r) on context %r -> "
                                     "%r, expected %r"
                                     % (key_notation(form, p), pred, roe, ctx, got, exp))


# ------------------------------------------------------------------ GroupBy
def as_form(entries, form):
    if form == "list":
        return list(entries)
    if form == "auto" and len(entries) == 1:
        return entries[0]
    return tuple(entries)


def real_key_dict(gb, ctx):
    try:
        return gb._iet.get(ctx)
    except Exception:  # pylint: disable=broad-except
        return None


def run_group(r, obs, ctl):
    import lena.flow
    import lena.core
    gbl, mgl = r["group_by"], r["merge"]
    try:
        gb = lena.flow.GroupBy(as_form(gbl, r["form"]), as_form(mgl, r["form"]))
    except lena.core.LenaValueError:
        obs.count("groupby_configs_rejected")
        obs.nontrivial = True
        return
    obs.count("groupby_configs_accepted")
    flow = []
    for i, c in enumerate(r["flow"]):
        flow.append(i if c is None else (i, R.cp(c)))
    ctxs = [c if c is not None else {} for c in r["flow"]]
    keys = [part_keys(c, gbl, mgl) for c in ctxs]
    for v in flow:
        gb.fill(v)
        obs.count("groupby_fills")
    groups = list(gb.compute())
    # partition of the filled values, arrival order inside each group
    where = {}
    ok_partition = True
    for gi, grp in enumerate(groups):
        last = -1
        for v in grp:
            idx = next((i for i, w in enumerate(flow) if w is v), None)
            if idx is None or idx in where:
                ok_partition = False
                continue
            where[idx] = gi
            ctl.evals += 1
            if idx < last:
                ctl.fail("groupby-order-not-preserved",
                         "GroupBy(%r, %r): group %r is not in arrival order" % (gbl, mgl, grp))
            last = idx
    ctl.evals += 1
    if not ok_partition or len(where) != len(flow) or any(not g for g in groups):
        ctl.fail("groupby-not-a-partition",
                 "GroupBy(%r, %r) groups %r are not a partition of the %d filled values"
                 % (gbl, mgl, groups, len(flow)))
        return
    if sorted(len(g) for g in groups) != sorted(len(g) for g in gb.groups.values()):
        ctl.fail("groupby-compute-differs-from-groups", "compute() and .groups disagree")
    listed = [e.split(".") for e in gbl + mgl if e]
    for i in range(len(flow)):
        for j in range(i + 1, len(flow)):
            same_real = where[i] == where[j]
            obs.count("groupby_pairs_judged")
            ctl.evals += 1
            if keys[i][0] == keys[j][0] and not same_real:
                ki, kj = real_key_dict(gb, ctxs[i]), real_key_dict(gb, ctxs[j])
                fd = first_key_diff(ki, kj) if ki is not None and kj is not None else None
                if fd and only_empty_dicts(fd[1]):
                    mech = "groupby-empty-placeholder-splits-group"
                else:
                    mech = "groupby-splits-group-on-unselected-key"
                ctl.fail(mech, "GroupBy(group_by=%r, merge=%r) puts contexts %r and %r into "
                         "different groups although they agree on every selected key path "
                         "(group keys %r vs %r)" % (gbl, mgl, ctxs[i], ctxs[j], ki, kj))
            elif keys[i][1] != keys[j][1] and same_real:
                dp = sorted(keys[i][1] ^ keys[j][1])[0][0]
                if any(list(dp) == e[:len(dp)] and len(e) > len(dp) for e in listed):
                    mech = "groupby-drops-scalar-where-listed-path-expects-dict"
                else:
                    mech = "groupby-merges-on-selected-key"
                ctl.fail(mech, "GroupBy(group_by=%r, merge=%r) puts contexts %r and %r into one "
                         "group although they differ on the selected key path %r"
                         % (gbl, mgl, ctxs[i], ctxs[j], ".".join(dp)))
    obs.nontrivial = len(groups) >= 2 and any(len(g) >= 2 for g in groups)
    # the same object used again after reset(): the values filled since then are partitioned
    # like a new GroupBy partitions them (the first one has the key of the last one before)
    if flow and hasattr(gb, "reset"):
        flow2 = [flow[-1]] + flow[::-1]
        flow2 = [(100 + i) if not isinstance(v, tuple) else (100 + i, R.cp(v[1]))
                 for i, v in enumerate(flow2)]
        if isinstance(flow[-1], tuple) and len(flow) % 3:
            # the very context object of the last value before the reset (a reader that
            # attaches one context dictionary to all values of a file)
            flow2[0] = (100, flow[-1][1])
        fresh = lena.flow.GroupBy(as_form(gbl, r["form"]), as_form(mgl, r["form"]))
        if len(flow) % 2:
            gb.reset()
        else:
            # the deprecated alias of reset()
            import warnings
            with warnings.catch_warnings():
                warnings.simplefilter("ignore")
                gb.clear()
        for v in flow2:
            gb.fill(v)
            fresh.fill(v)

        def picture(gs):
            return [[(v[0] if isinstance(v, tuple) else v) for v in g] for g in gs]
        got2, exp2 = picture(gb.compute()), picture(fresh.compute())
        obs.count("groupby_reuse_after_reset")
        ctl.evals += 1
        if got2 != exp2:
            ctl.fail("groupby-after-reset-differs-from-new",
                     "GroupBy(%r, %r) filled, computed, reset and filled with %d further values "
                     "(the first with the context of the last one before the reset) gives groups "
                     "%r, a new GroupBy %r" % (gbl, mgl, len(flow2), got2, exp2))
        old_changed = picture(groups) != [[(v[0] if isinstance(v, tuple) else v) for v in g]
                                          for g in [[flow[i] for i in sorted(
                                              k for k in where if where[k] == gi)]
                                              for gi in range(len(groups))]]
        if old_changed:
            ctl.fail("groupby-result-changed-by-later-fills",
                     "the groups yielded before reset() were changed by fills after it: %r"
                     % (picture(groups),))


def only_empty_dicts(v):
    return isinstance(v, dict) and all(only_empty_dicts(x) for x in v.values())


def first_key_diff(a, b, path=()):
    """(path, value present on one side only) of the first structural difference."""
    for k in sorted(set(a) | set(b)):
        if k not in a:
            return path + (k,), b[k]
        if k not in b:
            return path + (k,), a[k]
        if a[k] != b[k]:
            if isinstance(a[k], dict) and isinstance(b[k], dict):
                return first_key_diff(a[k], b[k], path + (k,))
            return path + (k,), None
    return None


def run_group_default(r, obs, ctl):
    import lena.flow
    obs.nontrivial = True
    gb = lena.flow.GroupBy()
    flow = [1, (2, {"a": 1}), (3, {"b": {"c": 2}}), "s", (4, {})]
    for v in flow:
        gb.fill(v)
        obs.count("groupby_fills")
    groups = list(gb.compute())
    ctl.evals += 1
    if not (len(groups) == 1 and len(groups[0]) == len(flow)
            and all(a is b for a, b in zip(groups[0], flow))):
        ctl.fail("groupby-default-not-one-group", "GroupBy() groups: %r" % (groups,))
    gb.reset()
    if list(gb.compute()) != []:
        ctl.fail("groupby-reset-keeps-groups", "GroupBy.reset() left %r" % (gb.groups,))


RULE += (' group_by / merge keys are listed in enumerated, reversed and shuffled order; raising leaves also raise LenaStopFill, LenaKeyError and RuntimeError.')
RULE += (' Class leaves also include classes whose metaclass is not type (numbers.Real, '
         'collections.abc.Sized, a user abc.ABC hierarchy, an Enum, a custom metaclass); '
         'SelectContext is also applied to contexts that are trees of collections.defaultdict.')
RULE += (' Added: classes used as SelectContext predicates; one list / tuple specification object '
         'used for two selectors with different raise_on_error (and left unchanged); GroupBy used '
         'again after reset().')
RULE += (' Added: a specification list made of ready Selector objects, edited by the user after the '
         'selector was built.')

RULE += (' Round 10: lists / tuples of 16..60 alternatives with negated leaves, nestings 5..8 deep; every selector also evaluated through copy.copy / copy.deepcopy / pickle of itself.')
