"""Mutant self-test: every patch in mutants/ (and every confirmed seed in seeded/) must make
the quick check of its property exit 1 with a VIOLATION line.

    ./check --selftest            # all
    ./check --selftest C02 C16    # only these properties

Each patch is applied to its own scratch git worktree of /repo HEAD (outside /repo and /verif),
which is removed afterwards.  /repo itself is never modified.
"""
import glob
import json
import os
import subprocess
import sys
import tempfile
from concurrent.futures import ThreadPoolExecutor

HERE = os.path.dirname(os.path.dirname(os.path.abspath(__file__)))


def targets(only):
    out = []
    for p in sorted(glob.glob(os.path.join(HERE, "mutants", "*.patch"))):
        pid = os.path.basename(p).split("_")[0]
        out.append((pid, p, os.path.basename(p)))
    for d in sorted(glob.glob(os.path.join(HERE, "seeded", "*"))):
        p = os.path.join(d, "patch.diff")
        if os.path.exists(p):
            pid = os.path.basename(d).split("-")[0]
            # a change written against one property may be seen by the check of another one
            # (recorded by hand in the file "caught_by": the id of that property)
            other = os.path.join(d, "caught_by")
            if os.path.exists(other):
                with open(other) as f:
                    pid = f.read().split()[0]
            out.append((pid, p, "seeded/" + os.path.basename(d)))
    if only:
        out = [t for t in out if t[0] in only]
    match = os.environ.get("SELFTEST_MATCH")
    if match:
        import re
        out = [t for t in out if re.search(match, t[2])]
    return out


def run_one(t):
    pid, patch, name = t
    wt = tempfile.mkdtemp(prefix="rv_mut_")
    os.rmdir(wt)
    try:
        r = subprocess.run(["git", "-C", "/repo", "worktree", "add", "-q", "--detach", wt, "HEAD"],
                           capture_output=True, text=True)
        if r.returncode:
            return (name, pid, "error", r.stderr.strip())
        r = subprocess.run(["git", "-C", wt, "apply", patch], capture_output=True, text=True)
        if r.returncode:
            # the patch may have been written against an earlier /repo commit
            r = subprocess.run(["git", "-C", wt, "apply", "--3way", patch],
                               capture_output=True, text=True)
            conflict = subprocess.run(["git", "-C", wt, "diff", "--name-only",
                                       "--diff-filter=U"], capture_output=True, text=True)
            if r.returncode or conflict.stdout.strip():
                return (name, pid, "does-not-apply", r.stderr.strip()[:200])
        env = dict(os.environ, LENA_REPO=wt, VERIF_JOBS=os.environ.get("SELFTEST_JOBS", "4"))
        r = subprocess.run([os.path.join(HERE, "check"), pid, "--tier", "quick"],
                           capture_output=True, text=True, env=env, timeout=3600)
        vio = [l for l in r.stdout.splitlines() if l.startswith("VIOLATION")]
        mechs = [l.strip() for l in r.stdout.splitlines() if l.strip().startswith("mech=")]
        if r.returncode == 1 and vio:
            return (name, pid, "caught", (mechs[0] if mechs else vio[0])[:160])
        return (name, pid, "MISSED", "exit=%d %s" % (r.returncode, r.stdout.strip()[-300:]))
    finally:
        subprocess.run(["git", "-C", "/repo", "worktree", "remove", "--force", wt],
                       capture_output=True)


def main(only):
    ts = targets(set(only))
    if not ts:
        print("no mutants")
        return 0
    res = []
    missed = 0
    with ThreadPoolExecutor(max_workers=int(os.environ.get("SELFTEST_PAR", "4"))) as ex:
        for name, pid, status, info in ex.map(run_one, ts):
            res.append((name, pid, status, info))
            print("%-8s %-45s %s  %s" % (status, name, pid, info), flush=True)
            if status != "caught":
                missed += 1
    print("selftest: %d mutants, %d not caught" % (len(res), missed))
    # the record of the self-test is kept for DESIGN.md (not an evidence file of a property);
    # a partial run updates the entries it re-ran and keeps the others
    path = os.path.join(HERE, "selftest_last.json")
    old = {}
    if os.path.exists(path):
        try:
            with open(path) as f:
                old = {e["mutant"]: e for e in json.load(f)}
        except Exception:  # pylint: disable=broad-except
            old = {}
    for n, p, s, i in res:
        old[n] = {"mutant": n, "property": p, "status": s, "info": i}
    # entries of changes that are no longer kept (moved to seeded_superseded/) are dropped
    kept = set(t[2] for t in targets(None))
    if not os.environ.get("SELFTEST_MATCH"):
        old = {k: v for k, v in old.items() if k in kept}
    with open(path, "w") as f:
        json.dump([old[k] for k in sorted(old)], f, indent=1)
    return 1 if missed else 0


if __name__ == "__main__":
    sys.exit(main(sys.argv[1:]))
